//! C17 — RFC 1982 serial arithmetic (Serial, Timestamp).
//!
//! Oracle: the RFC 1982 definition over 32-bit values, written independently
//! as a predicate on the wrapped difference d = (b - a) mod 2^32:
//!   d == 0 -> Equal; 0 < d < 2^31 -> a < b; d == 2^31 -> undefined; else a > b.
use crate::ctx::Ctx;
use domain::base::serial::Serial;
use domain::rdata::dnssec::Timestamp;
use serde_json::json;
use std::cmp::Ordering;

fn ref_cmp(a: u32, b: u32) -> Option<Ordering> {
    let d = b.wrapping_sub(a);
    if d == 0 {
        Some(Ordering::Equal)
    } else if d < 0x8000_0000 {
        Some(Ordering::Less)
    } else if d == 0x8000_0000 {
        None
    } else {
        Some(Ordering::Greater)
    }
}

fn ord_s(o: Option<Ordering>) -> &'static str {
    match o {
        Some(Ordering::Less) => "lt",
        Some(Ordering::Equal) => "eq",
        Some(Ordering::Greater) => "gt",
        None => "undef",
    }
}

/// Seconds since the epoch as YYYYMMDDHHmmSS (proleptic Gregorian, UTC), computed independently
/// (days-to-civil after Howard Hinnant).
fn date14(t: u64) -> String {
    let days = (t / 86400) as i64;
    let rem = t % 86400;
    let z = days + 719468;
    let era = z.div_euclid(146097);
    let doe = z.rem_euclid(146097);
    let yoe = (doe - doe / 1460 + doe / 36524 - doe / 146096) / 365;
    let y = yoe + era * 400;
    let doy = doe - (365 * yoe + yoe / 4 - yoe / 100);
    let mp = (5 * doy + 2) / 153;
    let d = doy - (153 * mp + 2) / 5 + 1;
    let m = if mp < 10 { mp + 3 } else { mp - 9 };
    let y = if m <= 2 { y + 1 } else { y };
    format!("{:04}{:02}{:02}{:02}{:02}{:02}", y, m, d, rem / 3600, rem % 3600 / 60, rem % 60)
}

/// Zone-version decisions (`InMemoryZoneDiff`: the end serial has to be newer than the start
/// serial) and signature times written as dates on both sides of the 2^32 wrap.
fn users(c: &mut Ctx) {
    use bytes::Bytes;
    use domain::base::iana::Rtype;
    use domain::base::name::Name;
    use domain::base::Ttl;
    use domain::rdata::{Soa, ZoneRecordData};
    use domain::zonetree::{InMemoryZoneDiffBuilder, Rrset, SharedRrset};
    use std::str::FromStr;
    let total = c.total(40_000, 2_000_000);
    let apex: Name<Bytes> = Name::from_str("example.").unwrap();
    let soa = |serial: u32| -> SharedRrset {
        let mut r = Rrset::new(Rtype::SOA, Ttl::from_secs(3600));
        let d: ZoneRecordData<Bytes, Name<Bytes>> = Soa::new(apex.clone(), apex.clone(), Serial(serial), Ttl::from_secs(1), Ttl::from_secs(2), Ttl::from_secs(3), Ttl::from_secs(4)).into();
        r.push_data(d);
        SharedRrset::new(r)
    };
    for idx in c.cases("users", total) {
        let mut rng = c.case_rng("users", idx);
        // (1) a zone diff from serial a to serial b
        let a = match rng.below(4) { 0 => rng.u32(), 1 => 0xFFFF_FFFFu32.wrapping_sub(rng.below(300) as u32), 2 => rng.below(300) as u32, _ => 0x8000_0000u32.wrapping_add(rng.below(5) as u32).wrapping_sub(2) };
        let d = match rng.below(5) { 0 => rng.u32(), 1 => rng.below(600) as u32, 2 => 0u32.wrapping_sub(rng.below(600) as u32), 3 => 0x8000_0000u32.wrapping_add(rng.below(5) as u32).wrapping_sub(2), _ => rng.below(0x7FFF_FFFF) as u32 };
        let b = a.wrapping_add(d);
        let r = crate::ctx::catch(|| {
            let mut bld = InMemoryZoneDiffBuilder::new();
            bld.remove(apex.clone(), Rtype::SOA, soa(a));
            bld.add(apex.clone(), Rtype::SOA, soa(b));
            bld.build().map(|df| (df.start_serial.into_int(), df.end_serial.into_int())).map_err(|e| format!("{:?}", e))
        });
        match (ref_cmp(a, b), r) {
            (_, Err(pi)) => c.violation(&format!("panic:{}", pi.site()), &format!("panic building a zone diff {} -> {}: {}", a, b, pi.msg), c.replay_of("users", idx, json!({"a": a, "b": b}))),
            (Some(Ordering::Less), Ok(Err(e))) => c.violation("zone-diff:forward-refused", &format!("a zone diff from serial {} to the newer serial {} (+{}) is refused: {}", a, b, d, e), c.replay_of("users", idx, json!({"a": a, "b": b}))),
            (Some(Ordering::Less), Ok(Ok((s, e)))) => {
                if (s, e) != (a, b) {
                    c.violation("zone-diff:serials", "a zone diff reports other serials than its SOA records carry", c.replay_of("users", idx, json!({"a": a, "b": b})));
                }
                c.count(if b < a { "zone_diffs_forward_across_the_wrap" } else { "zone_diffs_forward" }, 1);
            }
            (Some(Ordering::Equal) | Some(Ordering::Greater), Ok(Ok(_))) => c.violation("zone-diff:backward-accepted", &format!("a zone diff from serial {} to serial {}, which is not newer, is accepted", a, b), c.replay_of("users", idx, json!({"a": a, "b": b}))),
            (Some(_), Ok(Err(_))) => c.count("zone_diffs_backward_refused", 1),
            (None, _) => c.count("zone_diffs_undefined_order", 1),
        }
        // (2) signature times in date form: the value is the time modulo 2^32, on both sides of the wrap
        let t: u64 = match rng.below(4) {
            0 => (1u64 << 32) - 400 + rng.below(800) as u64,
            1 => (1u64 << 31) - 400 + rng.below(800) as u64,
            2 => rng.below(1 << 20) as u64 * 8192 + rng.below(8192) as u64, // anywhere up to 2^33
            _ => 1_600_000_000 + rng.below(400_000_000) as u64,
        };
        let text = date14(t);
        let r = crate::ctx::catch(|| (Timestamp::from_str(&text).map(|x| x.into_int()).map_err(|_| ()), Timestamp::from_str(&format!("{}", t as u32)).map(|x| x.into_int()).map_err(|_| ())));
        match r {
            Err(pi) => c.violation(&format!("panic:{}", pi.site()), &format!("panic parsing the signature time {}: {}", text, pi.msg), c.replay_of("users", idx, json!({"text": text}))),
            Ok((dform, iform)) => {
                if dform != Ok(t as u32) {
                    let side = if t >= 1 << 32 { "after-the-wrap" } else { "before-the-wrap" };
                    c.violation(&format!("sigtime:date-form:{}", side), &format!("the signature time {} ({} seconds after the epoch) reads as {:?}; RFC 4034 3.2 takes it modulo 2^32: {}", text, t, dform, t as u32), c.replay_of("users", idx, json!({"text": text})));
                }
                if iform != Ok(t as u32) {
                    c.violation("sigtime:integer-form", &format!("the signature time {} in integer form reads as {:?}", t as u32, iform), c.replay_of("users", idx, json!({"text": text})));
                }
                // a validity window of 30 days starting there: inception < expiration, whatever the wrap
                let t2 = t + 30 * 86400;
                if let (Ok(i), Ok(e)) = (Timestamp::from_str(&text), Timestamp::from_str(&date14(t2))) {
                    if !(i < e) || e < i {
                        c.violation("sigtime:window-order", &format!("inception {} is not before expiration {}", text, date14(t2)), c.replay_of("users", idx, json!({"text": text})));
                    }
                }
                c.count(if t >= 1 << 32 { "sigtimes_after_the_wrap" } else { "sigtimes_before_the_wrap" }, 1);
            }
        }
        // the same times as a zone file carries them: the scanner has its own reading of both forms
        // (`Timestamp::scan`, not `from_str`); expiration in date form, inception in date or integer form
        let t2 = t + 30 * 86400;
        let inc_int = rng.bool();
        let zf = format!("example. 3600 IN RRSIG A 13 1 3600 {} {} 12345 example. AAAA\n", date14(t2), if inc_int { format!("{}", t as u32) } else { text.clone() });
        let r = crate::ctx::catch(|| crate::p06::read_zonefile(zf.as_bytes(), None, false));
        match r {
            Err(pi) => c.violation(&format!("panic:{}", pi.site()), &format!("panic reading the zone file line {:?}: {}", zf, pi.msg), c.replay_of("users", idx, json!({"zonefile": zf}))),
            Ok(Err(e)) => c.violation("sigtime:zonefile:refused", &format!("the zone file line {:?} is refused: {}", zf, e), c.replay_of("users", idx, json!({"zonefile": zf}))),
            Ok(Ok(recs)) => {
                let rd = recs.first().map(|r| r.4.clone()).unwrap_or_default();
                if rd.len() < 18 {
                    c.violation("sigtime:zonefile:short", "RRSIG read from a zone file has short RDATA", c.replay_of("users", idx, json!({"zonefile": zf})));
                } else {
                    let exp = u32::from_be_bytes([rd[8], rd[9], rd[10], rd[11]]);
                    let inc = u32::from_be_bytes([rd[12], rd[13], rd[14], rd[15]]);
                    if exp != t2 as u32 {
                        let side = if t2 >= 1 << 32 { "after-the-wrap" } else { "before-the-wrap" };
                        c.violation(&format!("sigtime:zonefile:date-form:{}", side), &format!("the expiration {} ({} s after the epoch) in a zone file reads as {}; RFC 4034 3.2 takes it modulo 2^32: {}", date14(t2), t2, exp, t2 as u32), c.replay_of("users", idx, json!({"zonefile": zf})));
                    }
                    if inc != t as u32 {
                        let side = if inc_int { "integer-form" } else if t >= 1 << 32 { "date-form:after-the-wrap" } else { "date-form:before-the-wrap" };
                        c.violation(&format!("sigtime:zonefile:{}", side), &format!("the inception of {:?} reads as {}, expected {}", zf, inc, t as u32), c.replay_of("users", idx, json!({"zonefile": zf})));
                    }
                    c.count(if t2 >= 1 << 32 { "zonefile_sigtimes_after_the_wrap" } else { "zonefile_sigtimes_before_the_wrap" }, 1);
                }
            }
        }
        c.evals_n(2);
        c.sig(&("users", ref_cmp(a, b).map(|o| o as i8), b < a, t >> 29));
    }
    for k in ["zone_diffs_forward", "zone_diffs_forward_across_the_wrap", "zone_diffs_backward_refused", "sigtimes_after_the_wrap", "sigtimes_before_the_wrap", "zonefile_sigtimes_after_the_wrap", "zonefile_sigtimes_before_the_wrap"] {
        c.floor(k, 10);
    }
    zone_users(c);
    #[cfg(feature = "crypto")]
    validator_times(c);
}

/// (2b) the zone store bumping the SOA serial on commit, and the XFR middleware deciding from an
/// IXFR query's serial whether the client is current: both across the wrap.
fn zone_users(c: &mut Ctx) {
    use crate::zlib::{shared_rrset, sname};
    use crate::zmodel::{rd_soa, RRset};
    use domain::base::iana::{Class, Rtype};
    use domain::base::rdata::ComposeRecordData;
    use domain::zonetree::{AnswerContent, ZoneBuilder};
    let rt = tokio::runtime::Builder::new_current_thread().enable_all().build().unwrap();
    let apex: &[u8] = b"\x07example\x00";
    let total = c.total(600, 20_000);
    for idx in c.cases("zone-users", total) {
        let mut rng = c.case_rng("zone-users", idx);
        // (a) commit(true) on a zone at serial s, several times in a row: each time the serial is the next one, RFC 1982-newer
        let s0 = match rng.below(5) { 0 => 0xFFFF_FFFFu32, 1 => 0xFFFF_FFFEu32.wrapping_sub(rng.below(3) as u32), 2 => 0x7FFF_FFFEu32.wrapping_add(rng.below(4) as u32), 3 => rng.below(5) as u32, _ => rng.u32() };
        let r = crate::ctx::catch(|| -> Result<Vec<(u32, Option<(u32, u32)>)>, String> {
            let mut b = ZoneBuilder::new(sname(apex), Class::IN);
            b.insert_rrset(&sname(apex), shared_rrset(&RRset { name: apex.to_vec(), rtype: 6, ttl: 3600, rdatas: vec![rd_soa(apex, s0)] })).map_err(|_| "zone".to_string())?;
            let zone = b.build();
            let mut out = Vec::new();
            for _ in 0..3 {
                let mut wz = rt.block_on(zone.write());
                let node = rt.block_on(wz.open(true)).map_err(|e| e.to_string())?;
                drop(node);
                let d = rt.block_on(wz.commit(true)).map_err(|e| e.to_string())?;
                drop(wz);
                let rd = zone.read();
                let qn = sname(apex);
                let serial = match rd.query(qn, Rtype::SOA).map_err(|e| format!("{:?}", e))?.content() {
                    AnswerContent::Data(rr) => {
                        let mut bts = Vec::new();
                        rr.data().first().ok_or("no soa")?.compose_rdata(&mut bts).map_err(|_| "compose".to_string())?;
                        u32::from_be_bytes(bts[bts.len() - 20..bts.len() - 16].try_into().unwrap())
                    }
                    _ => return Err("no SOA after commit".into()),
                };
                out.push((serial, d.map(|d| (d.start_serial.into_int(), d.end_serial.into_int()))));
            }
            Ok(out)
        });
        match r {
            Err(pi) => c.violation(&format!("panic:{}", pi.site()), &format!("panic committing with a serial bump at serial {}: {}", s0, pi.msg), c.replay_of("zone-users", idx, json!({"serial": s0}))),
            Ok(Err(e)) => c.violation("zone-bump:failed", &format!("commit(true) at serial {} failed: {}", s0, e), c.replay_of("zone-users", idx, json!({"serial": s0}))),
            Ok(Ok(steps)) => {
                let mut prev = s0;
                for (serial, d) in steps {
                    let want = prev.wrapping_add(1);
                    if serial != want || ref_cmp(prev, serial) != Some(Ordering::Less) {
                        c.violation(if prev == 0xFFFF_FFFF { "zone-bump:at-the-wrap" } else { "zone-bump:serial" }, &format!("commit with the automatic serial bump took the zone from serial {} to {}; the next serial is {}", prev, serial, want), c.replay_of("zone-users", idx, json!({"serial": s0})));
                        break;
                    }
                    if let Some((a, b)) = d {
                        if (a, b) != (prev, serial) {
                            c.violation("zone-bump:diff-serials", &format!("the difference set of a commit from serial {} to {} runs from {} to {}", prev, serial, a, b), c.replay_of("zone-users", idx, json!({"serial": s0})));
                            break;
                        }
                    } else {
                        c.violation("zone-bump:no-diff", &format!("a commit from serial {} to {} opened with create_diff reported no difference set", prev, serial), c.replay_of("zone-users", idx, json!({"serial": s0})));
                        break;
                    }
                    c.count(if serial < prev { "zone_bumps_across_the_wrap" } else { "zone_bumps" }, 1);
                    prev = serial;
                }
            }
        }
        // (b) the IXFR decision: zone went old -> new (new is RFC 1982-newer); a client at `client`
        let old = match rng.below(4) { 0 => 0xFFFF_FFFFu32.wrapping_sub(rng.below(3) as u32), 1 => 0x7FFF_FFFFu32.wrapping_sub(rng.below(3) as u32), 2 => rng.below(10) as u32, _ => rng.u32() };
        let new = old.wrapping_add(*rng.pick(&[1u32, 1, 2, 3, 1000]));
        let (client, want): (u32, &str) = match rng.below(5) {
            0 => (old, "diffs"),
            1 => (new, "single-soa"),
            2 => (new.wrapping_add(1 + rng.below(1000) as u32), "single-soa"), // ahead of the zone
            3 => (old.wrapping_sub(1 + rng.below(1000) as u32), "axfr"),        // behind, no differences on file from there
            _ => (new.wrapping_add(0x7FFF_FF00), "single-soa"),                  // far ahead, still newer by RFC 1982
        };
        match crate::ctx::catch(|| crate::p10::ixfr_decision(&rt, old, new, client)) {
            Err(pi) => c.violation(&format!("panic:{}", pi.site()), &format!("panic answering an IXFR query: {}", pi.msg), c.replay_of("zone-users", idx, json!({"old": old, "new": new, "client": client}))),
            Ok(Err(e)) => c.violation("ixfr-decision:failed", &format!("IXFR query (zone {} -> {}, client {}) failed: {}", old, new, client, e), c.replay_of("zone-users", idx, json!({"old": old, "new": new, "client": client}))),
            Ok(Ok(got)) => {
                if got != want {
                    let across = new < old || (client > new) != (ref_cmp(client, new) == Some(Ordering::Greater)) || (client < new) != (ref_cmp(client, new) == Some(Ordering::Less));
                    c.violation(&format!("ixfr-decision:{}-instead-of-{}{}", got, want, if across { ":across-the-wrap" } else { "" }), &format!("the zone went from serial {} to {}; a client at serial {} asking for an incremental transfer gets [{}], expected [{}]", old, new, client, got, want), c.replay_of("zone-users", idx, json!({"old": old, "new": new, "client": client})));
                } else {
                    c.count(&format!("ixfr_decisions_{}", want), 1);
                    if new < old || client.wrapping_sub(new) < 0x8000_0000 && client < new {
                        c.count("ixfr_decisions_across_the_wrap", 1);
                    }
                }
            }
        }
        c.evals_n(2);
        c.sig(&("zone-users", s0 >> 28, want, new < old));
    }
    for k in ["zone_bumps", "zone_bumps_across_the_wrap", "ixfr_decisions_diffs", "ixfr_decisions_single-soa", "ixfr_decisions_axfr", "ixfr_decisions_across_the_wrap"] {
        c.floor(k, 5);
    }
}

/// (3) the validator deciding whether now lies inside a signature's validity period: inception
/// and expiration are serial numbers (RFC 4034 3.1.5), so a period that starts up to 2^31 seconds
/// back, or ends that far ahead, is in force whether or not its ends straddle 2^32 as integers.
#[cfg(feature = "crypto")]
fn validator_times(c: &mut Ctx) {
    if c.mode == "miri" {
        return;
    }
    let rt = tokio::runtime::Builder::new_current_thread().enable_all().build().unwrap();
    let total = c.total(64, 1280);
    let far: i64 = (1 << 31) - 200_000;
    // (inception offset, expiration offset, in force?, what)
    let table: [(i64, i64, bool, &str); 7] = [
        (-3600, 3600, true, "ordinary"),
        (-far, 86_400, true, "inception-almost-2^31-back"),
        (-86_400, far, true, "expiration-almost-2^31-ahead"),
        (-(1 << 30), 1 << 30, true, "a-2^31-period-centred-on-now"),
        (-2 * 86_400, -86_400, false, "expired-yesterday"),
        (86_400, 2 * 86_400, false, "starts-tomorrow"),
        (-far, -far + 86_400, false, "expired-almost-2^31-back"),
    ];
    for idx in c.cases("validator-times", total) {
        if c.out_of_time() {
            break;
        }
        let mut rng = c.case_rng("validator-times", idx);
        let (io, eo, in_force, what) = table[(idx % table.len() as u64) as usize];
        let r = crate::ctx::catch(|| crate::p14::sigtime_probe(&rt, &mut rng, io, eo));
        let ex = json!({"inception_offset": io, "expiration_offset": eo, "what": what});
        match r {
            Err(pi) => c.violation(&format!("panic:{}", pi.site()), &format!("panic validating a signature with validity period {}: {}", what, pi.msg), c.replay_of("validator-times", idx, ex)),
            Ok(Err(e)) if e.starts_with("panic") || e.starts_with("error") => c.violation(&format!("sigtime:validator:{}:failure", what), &format!("validating a signature with validity period {}: {}", what, e), c.replay_of("validator-times", idx, ex)),
            Ok(Err(e)) => c.note(&format!("harness: validator-times case not built: {}", e)),
            Ok(Ok(state)) => {
                if in_force && state != "Secure" {
                    c.violation(&format!("sigtime:validator:in-force-refused:{}", what), &format!("an answer whose signature is in force (inception now{:+} s, expiration now{:+} s, as serial numbers) validates as {}", io, eo, state), c.replay_of("validator-times", idx, ex));
                } else if !in_force && state == "Secure" {
                    c.violation(&format!("sigtime:validator:not-in-force-accepted:{}", what), &format!("an answer whose signature is not in force (inception now{:+} s, expiration now{:+} s) validates as Secure", io, eo), c.replay_of("validator-times", idx, ex));
                } else {
                    c.count(if in_force { "validator_periods_in_force_accepted" } else { "validator_periods_not_in_force_refused" }, 1);
                }
                c.evals_n(1);
                c.sig(&("validator-times", what, state));
            }
        }
    }
    c.floor("validator_periods_in_force_accepted", 3);
    c.floor("validator_periods_not_in_force_refused", 3);
}

/// Check one (base, difference) pair with a shift; returns a violation text.
#[inline]
fn check_pair(a: u32, d: u32, shift: u32) -> Result<Option<Ordering>, (String, String)> {
    let b = a.wrapping_add(d);
    let sa = Serial(a);
    let sb = Serial(b);
    let got = sa.partial_cmp(&sb);
    let want = ref_cmp(a, b);
    if got != want {
        return Err(("cmp:Serial".into(), format!("Serial({a}).partial_cmp(Serial({b})) = {} want {}", ord_s(got), ord_s(want))));
    }
    // antisymmetry
    let rev = sb.partial_cmp(&sa);
    if rev != got.map(|o| o.reverse()) {
        return Err(("antisym:Serial".into(), format!("Serial({b}).partial_cmp(Serial({a})) = {} but forward = {}", ord_s(rev), ord_s(got))));
    }
    // the comparison operators must agree with partial_cmp
    if (sa < sb) != (got == Some(Ordering::Less)) || (sa > sb) != (got == Some(Ordering::Greater)) {
        return Err(("ops:Serial".into(), format!("operators disagree with partial_cmp at ({a},{b})")));
    }
    // equality consistent
    if (sa == sb) != (got == Some(Ordering::Equal)) {
        return Err(("eq:Serial".into(), format!("== disagrees with partial_cmp at ({a},{b})")));
    }
    // addition: for 1 <= d <= 2^31-1, a.add(d) > a and equals b
    if d <= 0x7FFF_FFFF {
        let s = sa.add(d);
        if s != sb {
            return Err(("add:value".into(), format!("Serial({a}).add({d}) = {} want {b}", s.into_int())));
        }
        if d >= 1 && s.partial_cmp(&sa) != Some(Ordering::Greater) {
            return Err(("add:greater".into(), format!("Serial({a}).add({d}) not greater than Serial({a})")));
        }
    }
    // shift invariance
    let sh = shift & 0x7FFF_FFFF;
    let a2 = sa.add(sh);
    let b2 = sb.add(sh);
    if a2.partial_cmp(&b2) != got {
        return Err(("shift:Serial".into(), format!("cmp({a},{b}) = {} but after adding {sh} to both = {}", ord_s(got), ord_s(a2.partial_cmp(&b2)))));
    }
    // Timestamp agrees with Serial
    let ta = Timestamp::from(a);
    let tb = Timestamp::from(b);
    if ta.partial_cmp(&tb) != got {
        return Err(("cmp:Timestamp".into(), format!("Timestamp({a}).partial_cmp(Timestamp({b})) = {} but Serial gives {}", ord_s(ta.partial_cmp(&tb)), ord_s(got))));
    }
    if ta.into_int() != a {
        return Err(("value:Timestamp".into(), format!("Timestamp::from({a}).into_int() = {}", ta.into_int())));
    }
    Ok(got)
}

pub fn run(c: &mut Ctx) {
    let mut rng = c.case_rng("bases", 0);
    let mut bases: Vec<u32> = vec![0, 1, 0x7FFF_FFFF, 0x8000_0000, 0x8000_0001, 0xFFFF_FFFF];
    bases.push(rng.u32());
    bases.push(rng.u32());

    // difference space, partitioned into blocks of 2^16 differences
    let nblocks: u64 = 1 << 16;
    let quick = c.is_quick();
    // quick: every difference in the neighbourhoods of 0, 2^31, 2^32 plus a
    // seeded stride sweep; thorough: all 2^32 differences.
    let stride: u64 = if quick || c.scale < 1.0 { 257 } else { 1 };
    let mut outcome_counts = [0u64; 4];
    let mut nviol = 0;
    let mut distinct_classes = std::collections::BTreeSet::new();
    for blk in c.cases("blocks", nblocks) {
        crate::ctx::beat();
        if c.n_violations() > 20 {
            break;
        }
        let lo = blk << 16;
        let hi = lo + (1 << 16);
        let boundary_block = blk == 0 || blk == nblocks - 1 || blk == (nblocks / 2) || blk == (nblocks / 2 - 1);
        let st = if boundary_block { 1 } else { stride };
        let mut rng = c.case_rng("blocks", blk);
        let off = if st > 1 { rng.below(st as usize) as u64 } else { 0 };
        for (bi, &a) in bases.iter().enumerate() {
            let mut d = lo + off;
            while d < hi {
                let shift = rng.u32();
                let res = match crate::ctx::catch(|| check_pair(a, d as u32, shift)) {
                    Ok(r) => r,
                    Err(pi) => Err((format!("panic:{}", pi.site()), format!("panic for base {} difference {}: {}", a, d, pi.msg))),
                };
                match res {
                    Ok(o) => {
                        let k = match o { Some(Ordering::Less) => 0, Some(Ordering::Equal) => 1, Some(Ordering::Greater) => 2, None => 3 };
                        outcome_counts[k] += 1;
                        // distinct class: (base index, outcome, high nibble of difference)
                        distinct_classes.insert((bi, k, (d >> 28) as u8));
                    }
                    Err((sig, what)) => {
                        nviol += 1;
                        let rp = c.replay_of("blocks", blk, json!({"a": a, "d": d, "shift": shift}));
                        c.violation(&sig, &what, rp);
                    }
                }
                c.evals_n(1);
                d += st;
            }
        }
    }
    for cl in &distinct_classes {
        c.sig(cl);
    }
    // random pairs and addends (independent of the base sweep)
    let total = c.total(200_000, 20_000_000);
    let mut pairs = 0u64;
    for idx in c.cases("pairs", total / 1000) {
        let mut rng = c.case_rng("pairs", idx);
        for _ in 0..1000 {
            let a = rng.u32();
            let d = match rng.below(4) {
                0 => rng.u32(),
                1 => 0x8000_0000u32.wrapping_add(rng.below(5) as u32).wrapping_sub(2),
                2 => rng.below(5) as u32,
                _ => 0u32.wrapping_sub(rng.below(5) as u32),
            };
            let sh = rng.u32();
            let res = match crate::ctx::catch(|| check_pair(a, d, sh)) {
                Ok(r) => r,
                Err(pi) => Err((format!("panic:{}", pi.site()), format!("panic for base {} difference {}: {}", a, d, pi.msg))),
            };
            if let Err((sig, what)) = res {
                nviol += 1;
                let rp = c.replay_of("pairs", idx, json!({"a": a, "d": d}));
                c.violation(&sig, &what, rp);
            }
            pairs += 1;
        }
        c.evals_n(1000);
        crate::ctx::beat();
    }
    // ---- users of the arithmetic: the places where "which one is newer" is decided
    users(c);
    let _ = nviol;
    c.count("cmp_less", outcome_counts[0]);
    c.count("cmp_equal", outcome_counts[1]);
    c.count("cmp_greater", outcome_counts[2]);
    c.count("cmp_undefined", outcome_counts[3]);
    c.count("random_pairs", pairs);
    if c.shard == 0 {
        c.count("bases", bases.len() as u64);
    }
    c.floor("cmp_less", 1);
    c.floor("cmp_greater", 1);
    c.floor("cmp_undefined", 1);
    c.floor("cmp_equal", 1);
    if stride == 1 {
        c.exhaustive = Some(true);
    }
    if c.shard == 0 {
        c.sample(json!({"base": bases[6], "d": 0x8000_0000u32, "expect": "undefined", "got": ord_s(Serial(bases[6]).partial_cmp(&Serial(bases[6].wrapping_add(0x8000_0000))))}));
        c.sample(json!({"base": 0xFFFF_FFFFu32, "d": 1, "expect": "lt", "got": ord_s(Serial(0xFFFF_FFFF).partial_cmp(&Serial(0)))}));
        c.sample(json!({"base": bases[7], "d": 0x7FFF_FFFFu32, "add_gt": Serial(bases[7]).add(0x7FFF_FFFF) > Serial(bases[7])}));
    }
}
