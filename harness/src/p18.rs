//! C18 — Base16 / Base32hex / Base64 codecs against RFC 4648 reference code.
use crate::ctx::{hex, Ctx};
use crate::refimpl::b64::{self as r, Dec};
use crate::rng::Rng;
use domain::base::scan::{ConvertSymbols, EntrySymbol, Symbol};
use domain::utils::{base16, base32, base64};
use serde_json::json;
use std::io::Write;

#[derive(Clone, Copy, PartialEq, Eq, Debug, Hash)]
enum Codec {
    B16,
    B32,
    B64,
}
const CODECS: [Codec; 3] = [Codec::B16, Codec::B32, Codec::B64];

impl Codec {
    fn name(self) -> &'static str {
        match self {
            Codec::B16 => "base16",
            Codec::B32 => "base32hex",
            Codec::B64 => "base64",
        }
    }
    fn ref_enc(self, x: &[u8]) -> String {
        match self {
            Codec::B16 => r::enc16(x),
            Codec::B32 => r::enc32hex(x),
            Codec::B64 => r::enc64(x),
        }
    }
    fn ref_dec(self, t: &str) -> Dec {
        match self {
            Codec::B16 => r::dec16(t),
            Codec::B32 => r::dec32hex(t),
            Codec::B64 => r::dec64(t),
        }
    }
    fn lib_enc(self, x: &[u8]) -> String {
        match self {
            Codec::B16 => base16::encode_string(x),
            Codec::B32 => base32::encode_string_hex(x),
            Codec::B64 => base64::encode_string(x),
        }
    }
    fn lib_enc_display(self, x: &[u8]) -> String {
        match self {
            Codec::B16 => format!("{}", base16::encode_display(x)),
            Codec::B32 => format!("{}", base32::encode_display_hex(&x)),
            Codec::B64 => format!("{}", base64::encode_display(&x)),
        }
    }
    /// The codec's serde `with` module, human readable side: what `serialize` writes for octets.
    fn lib_serde_text(self, x: &[u8]) -> Result<String, String> {
        struct W<'a>(Codec, &'a Vec<u8>);
        impl serde::Serialize for W<'_> {
            fn serialize<S: serde::Serializer>(&self, s: S) -> Result<S::Ok, S::Error> {
                match self.0 {
                    Codec::B16 => base16::serde::serialize(self.1, s),
                    Codec::B32 => base32::serde::serialize(self.1, s),
                    Codec::B64 => base64::serde::serialize(self.1, s),
                }
            }
        }
        let v = x.to_vec();
        crate::sd::ser_text(&W(self, &v))
    }
    /// ... and what it writes over a compact format (the octets themselves).
    fn lib_serde_compact(self, x: &[u8]) -> Result<crate::sd::Wrote, String> {
        struct W<'a>(Codec, &'a Vec<u8>);
        impl serde::Serialize for W<'_> {
            fn serialize<S: serde::Serializer>(&self, s: S) -> Result<S::Ok, S::Error> {
                match self.0 {
                    Codec::B16 => base16::serde::serialize(self.1, s),
                    Codec::B32 => base32::serde::serialize(self.1, s),
                    Codec::B64 => base64::serde::serialize(self.1, s),
                }
            }
        }
        let v = x.to_vec();
        crate::sd::ser_compact(&W(self, &v))
    }
    /// `deserialize` of the serde module from a string (human readable format).
    fn lib_serde_dec(self, t: &str) -> Result<Vec<u8>, String> {
        let v = serde_json::Value::String(t.to_string());
        match self {
            Codec::B16 => base16::serde::deserialize::<Vec<u8>, _>(v).map_err(|e| e.to_string()),
            Codec::B32 => base32::serde::deserialize::<Vec<u8>, _>(v).map_err(|e| e.to_string()),
            Codec::B64 => base64::serde::deserialize::<Vec<u8>, _>(v).map_err(|e| e.to_string()),
        }
    }
    /// `deserialize` from raw octets (compact format).
    fn lib_serde_dec_compact(self, x: &[u8]) -> Result<Vec<u8>, String> {
        let d = crate::sd::BytesDe(crate::sd::Src::Owned(x.to_vec()));
        match self {
            Codec::B16 => base16::serde::deserialize::<Vec<u8>, _>(d).map_err(|e| e.to_string()),
            Codec::B32 => base32::serde::deserialize::<Vec<u8>, _>(d).map_err(|e| e.to_string()),
            Codec::B64 => base64::serde::deserialize::<Vec<u8>, _>(d).map_err(|e| e.to_string()),
        }
    }
    /// `decode()` of the whole string.
    fn lib_dec(self, t: &str) -> Result<Vec<u8>, String> {
        match self {
            Codec::B16 => base16::decode::<Vec<u8>>(t).map_err(|e| e.to_string()),
            Codec::B32 => base32::decode_hex::<Vec<u8>>(t).map_err(|e| e.to_string()),
            Codec::B64 => base64::decode::<Vec<u8>>(t).map_err(|e| e.to_string()),
        }
    }
    /// `Decoder`, one char per call, stopping at the first error as a caller must.
    fn lib_decoder(self, t: &str) -> Result<Vec<u8>, String> {
        match self {
            Codec::B16 => {
                let mut d = base16::Decoder::<Vec<u8>>::new();
                for c in t.chars() {
                    d.push(c).map_err(|e| e.to_string())?;
                }
                d.finalize().map_err(|e| e.to_string())
            }
            Codec::B32 => {
                let mut d = base32::Decoder::<Vec<u8>>::new_hex();
                for c in t.chars() {
                    d.push(c).map_err(|e| e.to_string())?;
                }
                d.finalize().map_err(|e| e.to_string())
            }
            Codec::B64 => {
                let mut d = base64::Decoder::<Vec<u8>>::new();
                for c in t.chars() {
                    d.push(c).map_err(|e| e.to_string())?;
                }
                d.finalize().map_err(|e| e.to_string())
            }
        }
    }
    /// `Decoder` the way its documentation allows: every character is pushed whatever the
    /// earlier pushes returned ("it is okay to push more data after the first error"), and
    /// `finalize` has to report what went wrong. Returns (result of finalize, some push failed).
    fn lib_decoder_pushing_on(self, t: &str) -> (Result<Vec<u8>, String>, bool) {
        let mut failed = false;
        match self {
            Codec::B16 => {
                let mut d = base16::Decoder::<Vec<u8>>::new();
                for c in t.chars() {
                    failed |= d.push(c).is_err();
                }
                (d.finalize().map_err(|e| e.to_string()), failed)
            }
            Codec::B32 => {
                let mut d = base32::Decoder::<Vec<u8>>::new_hex();
                for c in t.chars() {
                    failed |= d.push(c).is_err();
                }
                (d.finalize().map_err(|e| e.to_string()), failed)
            }
            Codec::B64 => {
                let mut d = base64::Decoder::<Vec<u8>>::new();
                for c in t.chars() {
                    failed |= d.push(c).is_err();
                }
                (d.finalize().map_err(|e| e.to_string()), failed)
            }
        }
    }
    /// The scanner-side converter, with the text cut into tokens at `cuts`.
    fn lib_conv(self, t: &str, cuts: &[usize]) -> Result<Vec<u8>, String> {
        fn drive<C: ConvertSymbols<EntrySymbol, std::io::Error>>(mut c: C, t: &str, cuts: &[usize]) -> Result<Vec<u8>, String> {
            let mut out = Vec::new();
            for (i, ch) in t.chars().enumerate() {
                if cuts.contains(&i) && i > 0 {
                    if let Some(d) = c.process_symbol(EntrySymbol::EndOfToken).map_err(|e| e.to_string())? {
                        out.extend_from_slice(d);
                    }
                }
                if let Some(d) = c.process_symbol(EntrySymbol::Symbol(Symbol::Char(ch))).map_err(|e| e.to_string())? {
                    out.extend_from_slice(d);
                }
            }
            if let Some(d) = c.process_symbol(EntrySymbol::EndOfToken).map_err(|e| e.to_string())? {
                out.extend_from_slice(d);
            }
            if let Some(d) = c.process_tail().map_err(|e| e.to_string())? {
                out.extend_from_slice(d);
            }
            Ok(out)
        }
        match self {
            Codec::B16 => drive(base16::SymbolConverter::new(), t, cuts),
            Codec::B32 => drive(base32::SymbolConverter::new(), t, cuts),
            Codec::B64 => drive(base64::SymbolConverter::new(), t, cuts),
        }
    }
}

impl Codec {
    /// The same through the scanner over an iterator of strings (`base::scan::IterScanner`, the scanner behind
    /// values made from token lists), which drives the converters with a loop of its own.
    fn lib_iter_scanner(self, t: &str, cuts: &[usize]) -> Result<Vec<u8>, String> {
        use domain::base::scan::{IterScanner, Scanner};
        let mut tokens: Vec<String> = vec![String::new()];
        for (i, ch) in t.chars().enumerate() {
            if cuts.contains(&i) && i > 0 {
                tokens.push(String::new());
            }
            tokens.last_mut().unwrap().push(ch);
        }
        let mut sc = IterScanner::<_, Vec<u8>>::new(tokens.iter());
        match self {
            Codec::B16 => sc.convert_entry(base16::SymbolConverter::new()).map_err(|e| e.to_string()),
            Codec::B64 => sc.convert_entry(base64::SymbolConverter::new()).map_err(|e| e.to_string()),
            Codec::B32 => sc.convert_token(base32::SymbolConverter::new()).map_err(|e| e.to_string()),
        }
    }
}

fn verdict_s(v: &Result<Vec<u8>, String>) -> &'static str {
    if v.is_ok() { "ok" } else { "err" }
}

/// Compare one library decoding path with the reference verdict.
fn judge(c: &mut Ctx, fam: &str, idx: u64, codec: Codec, path: &str, text: &str, got: &Result<Vec<u8>, String>, want: &Dec) {
    let bad = match (want, got) {
        (Dec::Ok(w), Ok(g)) => (g != w).then(|| ("wrong-octets", format!("decoded {} want {}", hex(g), hex(w)))),
        (Dec::Ok(w), Err(e)) => Some(("reject-wellformed", format!("rejected ({e}); want {}", hex(w)))),
        (Dec::Tolerated(w), Ok(g)) => (g != w).then(|| ("wrong-octets-tolerated", format!("decoded {} want {}", hex(g), hex(w)))),
        (Dec::Tolerated(_), Err(_)) => None,
        (Dec::Bad, Ok(g)) => Some(("accept-malformed", format!("accepted malformed text as {}", hex(g)))),
        (Dec::Bad, Err(_)) => None,
    };
    if let Some((kind, what)) = bad {
        let sig = format!("{}:{}:{}", kind, codec.name(), path);
        let rp = c.replay_of(fam, idx, json!({"codec": codec.name(), "path": path, "text": text}));
        c.violation(&sig, &format!("{} {} on {:?}: {}", codec.name(), path, text, what), rp);
    }
}

fn check_text(c: &mut Ctx, fam: &str, idx: u64, codec: Codec, text: &str, rng: &mut Rng) {
    let want = codec.ref_dec(text);
    let res = c.guard(fam, idx, || json!({"codec": codec.name(), "text": text}), || {
        let a = codec.lib_dec(text);
        let b = codec.lib_decoder(text);
        let b2 = codec.lib_decoder_pushing_on(text);
        let n = text.chars().count();
        // tokenisations: none, every position, two random ones
        let all: Vec<usize> = (1..n).collect();
        let mut r1: Vec<usize> = Vec::new();
        let mut r2: Vec<usize> = Vec::new();
        for i in 1..n {
            if rng.chance(1, 3) {
                r1.push(i);
            }
            if rng.chance(1, 2) {
                r2.push(i);
            }
        }
        // Base32 values are single tokens in the presentation format: no cuts there.
        let convs = if codec == Codec::B32 {
            vec![codec.lib_conv(text, &[])]
        } else {
            vec![codec.lib_conv(text, &[]), codec.lib_conv(text, &all), codec.lib_conv(text, &r1), codec.lib_conv(text, &r2)]
        };
        // an empty text is no token at all for a scanner
        let iters = if text.is_empty() || text.chars().any(|ch| ch == '\\' || ch == '"' || ch.is_whitespace()) {
            vec![]
        } else if codec == Codec::B32 {
            vec![codec.lib_iter_scanner(text, &[])]
        } else {
            vec![codec.lib_iter_scanner(text, &[]), codec.lib_iter_scanner(text, &all), codec.lib_iter_scanner(text, &r1), codec.lib_iter_scanner(text, &r2)]
        };
        (a, b, convs, b2, iters)
    });
    let Some((a, b, convs, b2, iters)) = res else { return };
    for (i, v) in iters.iter().enumerate() {
        judge(c, fam, idx, codec, "IterScanner", text, v, &want);
        c.count("iter_scanner_texts", 1);
        if i > 0 && v.as_ref().ok() != iters[0].as_ref().ok() {
            let rp = c.replay_of(fam, idx, json!({"codec": codec.name(), "text": text}));
            c.violation(&format!("chunking:{}:IterScanner", codec.name()), &format!("{} through IterScanner: the result depends on how {:?} is split into tokens: {:?} vs {:?}", codec.name(), text, iters[0], v), rp);
        }
    }
    if let Some(sd_) = c.guard(fam, idx, || json!({"codec": codec.name(), "text": text, "path": "serde"}), || codec.lib_serde_dec(text)) {
        judge(c, fam, idx, codec, "serde::deserialize", text, &sd_, &want);
        c.count("serde_texts_decoded", 1);
    }
    judge(c, fam, idx, codec, "decode", text, &a, &want);
    judge(c, fam, idx, codec, "Decoder", text, &b, &want);
    // pushing on after an error: finalize reports the failure, and otherwise agrees with stopping at once
    if b2.1 && b2.0.is_ok() {
        let rp = c.replay_of(fam, idx, json!({"codec": codec.name(), "text": text}));
        c.violation(&format!("decoder-forgets-error:{}", codec.name()), &format!("{} Decoder: a push failed on {:?}, the remaining characters were pushed as documented, and finalize returned Ok({})", codec.name(), text, hex(b2.0.as_ref().unwrap())), rp);
    } else if !b2.1 && b2.0.as_ref().ok() != b.as_ref().ok() {
        let rp = c.replay_of(fam, idx, json!({"codec": codec.name(), "text": text}));
        c.violation(&format!("decoder-pushing-on-differs:{}", codec.name()), &format!("{} Decoder gives another result when every push result is looked at only at the end ({:?})", codec.name(), text), rp);
    } else if b2.1 {
        c.count("decoder_errors_remembered", 1);
    }
    for (i, v) in convs.iter().enumerate() {
        judge(c, fam, idx, codec, "SymbolConverter", text, v, &want);
        if i > 0 && *v != convs[0] && (v.is_ok() || convs[0].is_ok()) {
            // same text, different tokenisation, different result
            if v.as_ref().ok() != convs[0].as_ref().ok() {
                let sig = format!("chunking:{}", codec.name());
                let rp = c.replay_of(fam, idx, json!({"codec": codec.name(), "text": text}));
                c.violation(&sig, &format!("{} SymbolConverter: result depends on tokenisation of {:?}: {:?} vs {:?}", codec.name(), text, convs[0], v), rp);
            }
        }
    }
    if a != b && (a.is_ok() || b.is_ok()) && a.as_ref().ok() != b.as_ref().ok() {
        let sig = format!("decode-vs-decoder:{}", codec.name());
        let rp = c.replay_of(fam, idx, json!({"codec": codec.name(), "text": text}));
        c.violation(&sig, &format!("decode() and Decoder disagree on {:?}", text), rp);
    }
    let wk = match want { Dec::Ok(_) => "wf", Dec::Tolerated(_) => "tol", Dec::Bad => "bad" };
    c.count(&format!("dec_{}_{}", codec.name(), wk), 1);
    if a.is_ok() {
        c.count("accepted", 1);
    } else {
        c.count("rejected", 1);
    }
    let n = text.chars().count();
    c.eval(&(codec, wk, verdict_s(&a), verdict_s(&convs[0]), n % 8, text.matches('=').count().min(3), n.min(12)));
}

fn check_octets(c: &mut Ctx, fam: &str, idx: u64, x: &[u8], rng: &mut Rng, log: &mut Option<std::fs::File>) {
    for codec in CODECS {
        let want = codec.ref_enc(x);
        let res = c.guard(fam, idx, || json!({"codec": codec.name(), "octets": hex(x)}), || {
            (codec.lib_enc(x), codec.lib_enc_display(x))
        });
        let Some((got, got2)) = res else { continue };
        if got != want || got2 != want {
            let sig = format!("encode:{}", codec.name());
            let rp = c.replay_of(fam, idx, json!({"codec": codec.name(), "octets": hex(x)}));
            c.violation(&sig, &format!("{} encode({}) = {:?} / {:?}, RFC 4648 gives {:?}", codec.name(), hex(x), got, got2, want), rp);
        }
        // the serde module of the codec: the RFC 4648 text over a human readable format, the octets themselves over a compact one
        if let Some((st, sc, dc)) = c.guard(fam, idx, || json!({"codec": codec.name(), "octets": hex(x), "path": "serde"}), || (codec.lib_serde_text(x), codec.lib_serde_compact(x), codec.lib_serde_dec_compact(x))) {
            if st.as_deref() != Ok(want.as_str()) {
                let rp = c.replay_of(fam, idx, json!({"codec": codec.name(), "octets": hex(x)}));
                c.violation(&format!("encode:{}:serde", codec.name()), &format!("{} serde::serialize({}) writes {:?}, RFC 4648 gives {:?}", codec.name(), hex(x), st, want), rp);
            }
            if sc != Ok(crate::sd::Wrote::Bytes(x.to_vec())) || dc.as_deref() != Ok(x) {
                let rp = c.replay_of(fam, idx, json!({"codec": codec.name(), "octets": hex(x)}));
                c.violation(&format!("serde-compact:{}", codec.name()), &format!("{} serde over a compact format does not carry the octets {} unchanged: wrote {:?}, read {:?}", codec.name(), hex(x), sc, dc.as_ref().map(|d| hex(d))), rp);
            }
            c.count("serde_octets_encoded", 1);
        }
        // decode what the library produced, all paths and tokenisations
        check_text(c, fam, idx, codec, &got, rng);
        let back = codec.lib_dec(&got);
        if back.as_deref().ok() != Some(x) {
            let sig = format!("roundtrip:{}", codec.name());
            let rp = c.replay_of(fam, idx, json!({"codec": codec.name(), "octets": hex(x)}));
            c.violation(&sig, &format!("{} decode(encode({})) = {:?}", codec.name(), hex(x), back), rp);
        }
        c.count("roundtrips", 1);
        if let Some(f) = log {
            if rng.chance(1, 8) {
                let _ = writeln!(f, "{}", json!({"codec": codec.name(), "octets": hex(x), "text": got}));
            }
        }
    }
}

fn reduced_alphabet(codec: Codec) -> Vec<char> {
    match codec {
        // valid symbols chosen so that zero and non-zero trailing bits both occur
        Codec::B16 => vec!['0', '9', 'a', 'F', '=', 'g', '\u{e9}'],
        Codec::B32 => vec!['0', 'V', 'G', 'v', '=', 'W', '\u{e9}'],
        Codec::B64 => vec!['A', '/', 'Q', 'z', '=', '-', '\u{e9}'],
    }
}

// ---------------------------------------------------------- record fields ----

/// The codecs at work in presentation format: the encoded field of a record in a zone file. Each
/// record type wraps the codec's converter in code of its own (the NSEC3 salt with its "-" form,
/// fields that end the record and may be spread over several tokens, the generic RFC 3597 form);
/// whatever the wrapper, the field is accepted exactly when its text is well-formed, and then it
/// holds the octets the text encodes.
fn field_case(c: &mut Ctx, fam: &str, idx: u64, rng: &mut Rng) {
    // (name, codec, prefix of the RDATA text, suffix, offset of the field in RDATA, length octet in front?, may span tokens)
    const FIELDS: [(&str, Codec, &str, &str, usize, bool, bool); 11] = [
        ("DS-digest", Codec::B16, "DS 12345 13 2 ", "", 4, false, true),
        ("TLSA-data", Codec::B16, "TLSA 3 1 1 ", "", 3, false, true),
        ("SSHFP-fingerprint", Codec::B16, "SSHFP 4 2 ", "", 2, false, true),
        ("NSEC3PARAM-salt", Codec::B16, "NSEC3PARAM 1 0 10 ", "", 4, true, false),
        ("NSEC3-salt", Codec::B16, "NSEC3 1 0 10 ", " 00000000000000000000000000000000 A", 4, true, false),
        ("generic-rdata", Codec::B16, "TYPE65280 \\# LEN ", "", 0, false, true),
        ("NSEC3-next-owner", Codec::B32, "NSEC3 1 0 10 - ", " A", 5, true, false),
        ("DNSKEY-key", Codec::B64, "DNSKEY 256 3 13 ", "", 4, false, true),
        ("CDNSKEY-key", Codec::B64, "CDNSKEY 257 3 15 ", "", 4, false, true),
        ("OPENPGPKEY", Codec::B64, "OPENPGPKEY ", "", 0, false, true),
        ("RRSIG-signature", Codec::B64, "RRSIG A 13 2 300 20300101000000 20200101000000 12345 example. ", "", 18 + 9, false, true),
    ];
    let (fname, codec, pre, suf, off, lenoct, multi) = FIELDS[rng.below(FIELDS.len())];
    // a valid encoding, then perhaps damaged
    let len = match rng.below(6) { 0 => rng.range(1, 5), 1 => rng.range(17, 40), _ => rng.range(4, 24) };
    let x = rng.bytes(len);
    let mut t: Vec<char> = codec.ref_enc(&x).chars().collect();
    if codec == Codec::B16 && rng.bool() {
        for ch in t.iter_mut() {
            if rng.bool() { *ch = ch.to_ascii_lowercase(); }
        }
    }
    let damage = rng.below(8);
    match damage {
        0 => { t.pop(); }                                             // one symbol short (odd number of hex digits ...)
        1 => { let p = rng.below(t.len() + 1); t.insert(p, *rng.pick(&['g', 'W', '!', '_', '=', 'z'])); }
        2 => { let p = rng.below(t.len()); t[p] = *rng.pick(&['G', 'w', '-', '=', '*']); }
        3 => { t.push(*rng.pick(&['0', 'A', 'f', '='])); }
        4 => { t.pop(); t.pop(); t.pop(); }
        _ => {}
    }
    if t.is_empty() {
        return;
    }
    let text: String = t.iter().collect();
    // spread over tokens where the format allows it
    let mut shown = String::new();
    let mut cuts = 0;
    for (i, ch) in t.iter().enumerate() {
        if multi && i > 0 && rng.chance(1, 9) {
            shown.push(' ');
            cuts += 1;
        }
        shown.push(*ch);
    }
    let want = codec.ref_dec(&text);
    let pre = if pre.contains("LEN") {
        let l = match &want { Dec::Ok(w_) | Dec::Tolerated(w_) => w_.len(), Dec::Bad => text.len() / 2 };
        pre.replace("LEN", &l.to_string())
    } else {
        pre.to_string()
    };
    let zone = format!("example. 300 IN {}{}{}\n", pre, shown, suf);
    let ex = || json!({"field": fname, "zone_text": zone});
    let Some(r) = c.guard(fam, idx, ex, || crate::p06::read_zonefile(zone.as_bytes(), None, false)) else { return };
    // what the record holds in the field's place
    let got: Result<Vec<u8>, String> = r.and_then(|recs| {
        let rd = recs.first().map(|x_| x_.4.clone()).ok_or_else(|| "no record".to_string())?;
        if lenoct {
            let l = *rd.get(off).ok_or_else(|| "short rdata".to_string())? as usize;
            rd.get(off + 1..off + 1 + l).map(|s_| s_.to_vec()).ok_or_else(|| "short rdata".to_string())
        } else {
            rd.get(off..).map(|s_| s_.to_vec()).ok_or_else(|| "short rdata".to_string())
        }
    });
    let got = if fname == "NSEC3-next-owner" {
        // (the type bitmap follows the hash)
        got
    } else {
        got
    };
    // the record types add limits of their own (a salt or hash of at most 255 octets): all texts here stay below them
    judge(c, fam, idx, codec, &format!("zonefile:{}", fname), &text, &got, &want);
    c.count(&format!("field_{}", fname), 1);
    if got.is_ok() {
        c.count("fields_accepted", 1);
    } else {
        c.count("fields_refused", 1);
    }
    let wk = match want { Dec::Ok(_) => "wf", Dec::Tolerated(_) => "tol", Dec::Bad => "bad" };
    c.eval(&("field", fname, wk, got.is_ok(), damage, cuts.min(3), text.len() % 8));
}

pub fn run(c: &mut Ctx) {
    c.families(8);
    let mut log = std::fs::File::create(c.logdir.join(format!("b64_{}.jsonl", c.shard))).ok();

    // (1) exhaustive: all octet strings of length 0..=2
    let mut space: Vec<Vec<u8>> = vec![vec![]];
    for a in 0..=255u8 {
        space.push(vec![a]);
    }
    for a in 0..=255u8 {
        for b in 0..=255u8 {
            space.push(vec![a, b]);
        }
    }
    let full = c.scale >= 1.0;
    let n = space.len() as u64;
    for idx in c.cases("octets-exh", n) {
        if !full && idx % 16 != 0 {
            continue;
        }
        let mut rng = c.case_rng("octets-exh", idx);
        check_octets(c, "octets-exh", idx, &space[idx as usize], &mut rng, &mut log);
    }

    // (2) exhaustive: all texts of length <= 6 (quick: <= 5) over the reduced alphabet
    let maxlen = if c.is_quick() || !full { 5 } else { 6 };
    for codec in CODECS {
        let al = reduced_alphabet(codec);
        let k = al.len() as u64;
        let mut total = 0u64;
        let mut p = 1u64;
        for _ in 0..=maxlen {
            total += p;
            p *= k;
        }
        let fam = format!("text-exh-{}", codec.name());
        for idx in c.cases(&fam, total) {
            // decode idx into (length, digits)
            let mut rem = idx;
            let mut len = 0;
            let mut p = 1u64;
            while rem >= p {
                rem -= p;
                p *= k;
                len += 1;
            }
            let mut s = String::new();
            for _ in 0..len {
                s.push(al[(rem % k) as usize]);
                rem /= k;
            }
            let mut rng = c.case_rng(&fam, idx);
            check_text(c, &fam, idx, codec, &s, &mut rng);
        }
    }
    if full {
        c.exhaustive = Some(true);
    }

    // (3) random longer octet strings
    let total = c.total(200_000, 4_000_000);
    for idx in c.cases("octets-rand", total) {
        if c.out_of_time() {
            break;
        }
        let mut rng = c.case_rng("octets-rand", idx);
        let len = match rng.below(10) {
            0..=5 => rng.range(3, 40),
            6..=8 => rng.range(41, 300),
            _ => rng.range(301, 2000),
        };
        let x = match rng.below(4) {
            0 => vec![0u8; len],
            1 => vec![0xFFu8; len],
            _ => rng.bytes(len),
        };
        if c.want_sample() && idx % 7 == 3 {
            c.sample(json!({"octets": hex(&x[..x.len().min(24)]), "len": x.len(), "base64": base64::encode_string(&x[..x.len().min(24)])}));
        }
        check_octets(c, "octets-rand", idx, &x, &mut rng, &mut log);
    }

    // (3b) every character up to U+0400, and a stride of the rest, alone and inside an otherwise
    // well-formed text, through every decoder: a verdict, never a panic, and the reference's verdict
    let nchars: u64 = 0x400 + (0x11_0000 - 0x400) / 251;
    for idx in c.cases("chars", nchars) {
        let cp = if idx < 0x400 { idx as u32 } else { 0x400 + (idx as u32 - 0x400) * 251 };
        let Some(ch) = char::from_u32(cp) else { continue };
        let mut rng = c.case_rng("chars", idx);
        for codec in CODECS {
            let valid: Vec<char> = codec.ref_enc(&rng.bytes(10)).chars().collect();
            for place in 0..4 {
                let mut t = valid.clone();
                match place {
                    0 => t = vec![ch],
                    1 => t.insert(0, ch),
                    2 => {
                        let p = rng.below(t.len());
                        t[p] = ch;
                    }
                    _ => t.push(ch),
                }
                let text: String = t.into_iter().collect();
                check_text(c, "chars", idx, codec, &text, &mut rng);
            }
        }
        c.count("characters_swept", 1);
    }

    // (3c) the encoded fields of records in a zone file
    let total = c.total(150_000, 6_000_000);
    for idx in c.cases("record-fields", total) {
        if c.out_of_time() {
            break;
        }
        let mut rng = c.case_rng("record-fields", idx);
        field_case(c, "record-fields", idx, &mut rng);
    }

    // (4) mutated encodings: padding moved, invalid symbols, truncation, case flips
    let total = c.total(400_000, 8_000_000);
    for idx in c.cases("text-mut", total) {
        if c.out_of_time() {
            break;
        }
        let mut rng = c.case_rng("text-mut", idx);
        let codec = CODECS[rng.below(3)];
        let len = rng.range(0, 24);
        let x = rng.bytes(len);
        let mut t: Vec<char> = codec.ref_enc(&x).chars().collect();
        let nm = rng.range(1, 3);
        for _ in 0..nm {
            let pos = if t.is_empty() { 0 } else { rng.below(t.len() + 1) };
            match rng.below(10) {
                0 => t.insert(pos, '='),
                1 => t.insert(pos, *rng.pick(&['!', ' ', '-', '_', '\u{0}', '\u{7f}', '\u{100}', 'W', 'g', '\t'])),
                8 | 9 => {
                    // a non-ASCII character whose low octet (or low 7 bits) is an alphabet symbol
                    let base = *rng.pick(&['A', 'v', 'Q', '0', '9', 'F', 'a', '+', '/', '=']) as u32;
                    let hi = *rng.pick(&[0x80u32, 0x100, 0x200, 0x1000, 0x10000, 0xFF00]);
                    let ch = char::from_u32(base + hi).unwrap_or('\u{176}');
                    if rng.bool() && !t.is_empty() {
                        let p = pos.min(t.len() - 1);
                        t[p] = ch;
                    } else {
                        t.insert(pos, ch);
                    }
                }
                2 => {
                    if !t.is_empty() {
                        t.remove(pos.min(t.len() - 1));
                    }
                }
                3 => {
                    if !t.is_empty() {
                        let p = pos.min(t.len() - 1);
                        t[p] = if t[p].is_ascii_lowercase() { t[p].to_ascii_uppercase() } else { t[p].to_ascii_lowercase() };
                    }
                }
                4 => t.truncate(pos),
                5 => t.push('='),
                6 => {
                    // replace the last symbol: exercises non-zero trailing bits
                    if let Some(l) = t.iter().rposition(|ch| *ch != '=') {
                        let al: Vec<char> = codec.ref_enc(&rng.bytes(5)).chars().filter(|c| *c != '=').collect();
                        t[l] = *rng.pick(&al);
                    }
                }
                _ => {
                    let k = rng.range(1, 4);
                    let extra: Vec<char> = codec.ref_enc(&rng.bytes(k)).chars().collect();
                    t.extend(extra);
                }
            }
        }
        let s: String = t.into_iter().collect();
        if c.want_sample() && idx % 11 == 5 {
            c.sample(json!({"codec": codec.name(), "text": s, "reference": format!("{:?}", codec.ref_dec(&s))}));
        }
        check_text(c, "text-mut", idx, codec, &s, &mut rng);
    }
    c.floor("accepted", 1);
    c.floor("rejected", 1);
    c.floor("roundtrips", 1);
    c.floor("serde_texts_decoded", 100);
    c.floor("fields_accepted", 1000);
    c.floor("fields_refused", 1000);
    c.floor("serde_octets_encoded", 100);
    for codec in CODECS {
        c.floor(&format!("dec_{}_wf", codec.name()), 1);
        c.floor(&format!("dec_{}_bad", codec.name()), 1);
    }
}
