//! C19 — the new-API codec and the established codec agree on the wire
//! format (differential parsing, cross-reading of built messages, the new
//! name compressor only emits pointers that resolve to the intended name).
use crate::ctx::{self, hex, step, unhex, Ctx};
use crate::gen::msg as gm;
use crate::gen::names;
use crate::gen::rdata as g;
use crate::refimpl::wire::{self as w, Fv};
use crate::rng::Rng;
use domain::base::iana::{Class, Rtype};
use domain::base::message::Message;
use domain::base::message_builder::{MessageBuilder as OldBuilder, TreeCompressor};
use domain::base::name::{FlattenInto, Name as OldName, ParsedName, ToName};
use domain::base::question::Question as OldQuestion;
use domain::base::rdata::{ComposeRecordData, ParseAnyRecordData};
use domain::base::record::{Record as OldRecord, Ttl};
use domain::new::base::build::{BuildBytes, MessageBuilder as NewBuilder, NameCompressor};
use domain::new::base::name::{NameBuf, RevNameBuf};
use domain::new::base::parse::{MessageParser, ParseBytes, ParseMessageBytes, SplitMessageBytes};
use domain::new::base::wire::{AsBytes, U16, U32};
use domain::new::base::{HeaderFlags, MessageItem, QClass, QType, Question as NewQuestion, RClass, RType, Record as NewRecord, TTL};
use domain::new::edns::{EdnsFlags, EdnsRecord};
use domain::new::base::ParseRecordData as NewParseRecordData;
use domain::new::rdata::RecordData as NewRecordData;
use domain::rdata::AllRecordData;
use octseq::parse::Parser;
use serde_json::json;

/// Record types both codecs interpret structurally.
const BOTH_KNOWN: &[u16] = &[
    w::T_A, w::T_NS, w::T_CNAME, w::T_SOA, w::T_PTR, w::T_HINFO, w::T_MX, w::T_TXT, w::T_RP, w::T_SRV, w::T_AAAA, w::T_DNAME, w::T_OPT, w::T_DS, w::T_RRSIG,
    w::T_NSEC, w::T_DNSKEY, w::T_NSEC3, w::T_NSEC3PARAM, w::T_ZONEMD,
];

#[derive(Clone, Debug, PartialEq, Eq)]
struct NItem {
    section: u8,
    owner: Vec<u8>,
    rtype: u16,
    class: u16,
    ttl: u32,
    rdata: Vec<u8>,
}

fn build_to_vec<T: BuildBytes + ?Sized>(v: &T) -> Option<Vec<u8>> {
    let n = v.built_bytes_size();
    let mut buf = vec![0u8; n];
    let rest = v.build_bytes(&mut buf).ok()?.len();
    buf.truncate(n - rest);
    Some(buf)
}

/// Items as the new codec reads them; Err(index of the item that failed).
fn new_read(bytes: &[u8]) -> Result<Vec<NItem>, usize> {
    step("new::MessageParser::new");
    let mp = MessageParser::new(bytes).map_err(|_| usize::MAX)?;
    let mut out = Vec::new();
    step("new::MessageParser::next");
    for (i, item) in mp.enumerate() {
        let item = item.map_err(|_| i)?;
        let it = match item {
            MessageItem::Question(q) => NItem { section: 0, owner: q.qname.to_name().as_bytes().to_vec(), rtype: q.qtype.code.get(), class: q.qclass.code.get(), ttl: 0, rdata: vec![] },
            MessageItem::Answer(r) | MessageItem::Authority(r) | MessageItem::Additional(r) => {
                // section is recovered from position below
                NItem { section: 9, owner: r.rname.to_name().as_bytes().to_vec(), rtype: r.rtype.code.get(), class: r.rclass.code.get(), ttl: r.ttl.value.get(), rdata: build_to_vec(&r.rdata).ok_or(i)? }
            }
            MessageItem::Edns(e) => {
                let ttl = ((e.ext_rcode as u32) << 24) | ((e.version as u32) << 16) | (e.flags.bits() as u32);
                NItem { section: 3, owner: vec![0], rtype: 41, class: e.max_udp_payload.get(), ttl, rdata: e.data.as_bytes().to_vec() }
            }
        };
        out.push(it);
        if out.len() > 70000 * 4 {
            return Err(i);
        }
    }
    Ok(out)
}


/// The same message through the new API's other reading route: the message view, then one
/// question or record after the other with `split_message_bytes`, an OPT record turned into an
/// `EdnsRecord` with `TryFrom` (and back with `From`). Err(index of the item that failed).
fn new_read_low_level(bytes: &[u8]) -> Result<Vec<NItem>, usize> {
    use domain::new::base::Message as NewMessage;
    use domain::new::rdata::Opt as NewOpt;
    step("new::Message::parse_bytes");
    let m = <&NewMessage>::parse_bytes(bytes).map_err(|_| usize::MAX)?;
    let cn = &m.header.counts;
    let (nq, nrec) = (cn.questions.get() as usize, cn.answers.get() as usize + cn.authorities.get() as usize + cn.additionals.get() as usize);
    let first_additional = nq + cn.answers.get() as usize + cn.authorities.get() as usize;
    let mut out = Vec::new();
    let mut off = 0usize;
    step("new::Question::split_message_bytes");
    for i in 0..nq {
        let (q, o2) = <NewQuestion<RevNameBuf>>::split_message_bytes(&m.contents, off).map_err(|_| i)?;
        off = o2;
        out.push(NItem { section: 0, owner: q.qname.to_name().as_bytes().to_vec(), rtype: q.qtype.code.get(), class: q.qclass.code.get(), ttl: 0, rdata: vec![] });
    }
    step("new::Record::split_message_bytes");
    for j in 0..nrec {
        let i = nq + j;
        let (r, o2) = <NewRecord<RevNameBuf, NewRecordData<'_, NameBuf>>>::split_message_bytes(&m.contents, off).map_err(|_| i)?;
        off = o2;
        let owner = r.rname.to_name().as_bytes().to_vec();
        if r.rtype.code.get() == 41 && owner == [0u8] && i >= first_additional {
            step("new::EdnsRecord::try_from(Record)");
            let e: EdnsRecord<&NewOpt> = r.try_into().map_err(|_| i)?;
            let ttl = ((e.ext_rcode as u32) << 24) | ((e.version as u32) << 16) | (e.flags.bits() as u32);
            let data = e.data.as_bytes().to_vec();
            let class = e.max_udp_payload.get();
            // and back into a record: class and TTL carry the same fields again
            step("new::Record::from(EdnsRecord)");
            let back: NewRecord<&domain::new::base::name::Name, NewRecordData<'_, &domain::new::base::name::Name>> = e.into();
            if back.rclass.code.get() != class || back.ttl.value.get() != ttl || back.rtype.code.get() != 41 {
                return Err(i);
            }
            out.push(NItem { section: 3, owner: vec![0], rtype: 41, class, ttl, rdata: data });
        } else {
            out.push(NItem { section: 9, owner, rtype: r.rtype.code.get(), class: r.rclass.code.get(), ttl: r.ttl.value.get(), rdata: build_to_vec(&r.rdata).ok_or(i)? });
        }
    }
    if off != m.contents.len() {
        // (trailing octets: the item-wise reading does not look at them, the parser does not either)
    }
    Ok(out)
}

/// Items as the established codec reads them ("accepts a record" = header
/// parses and the data parses as AllRecordData).
fn old_read(bytes: &[u8]) -> Result<Vec<NItem>, usize> {
    step("old::Message::from_octets");
    let msg = Message::from_octets(bytes).map_err(|_| usize::MAX)?;
    let mut out = Vec::new();
    let mut i = 0;
    step("old::question");
    for q in msg.question() {
        let q = q.map_err(|_| i)?;
        out.push(NItem { section: 0, owner: q.qname().to_vec().as_slice().to_vec(), rtype: q.qtype().to_int(), class: q.qclass().to_int(), ttl: 0, rdata: vec![] });
        i += 1;
    }
    step("old::records");
    let mut sec = msg.answer().map_err(|_| i)?;
    let mut si = 1u8;
    loop {
        for r in &mut sec {
            let r = r.map_err(|_| i)?;
            let rec = r.into_any_record::<AllRecordData<_, _>>().map_err(|_| i)?;
            let mut rd = Vec::new();
            rec.data().compose_rdata(&mut rd).map_err(|_| i)?;
            out.push(NItem { section: si, owner: rec.owner().to_vec().as_slice().to_vec(), rtype: rec.rtype().to_int(), class: rec.class().to_int(), ttl: rec.ttl().as_secs(), rdata: rd });
            i += 1;
        }
        match sec.next_section() {
            Ok(Some(n)) => {
                sec = n;
                si += 1;
            }
            Ok(None) => break,
            Err(_) => return Err(i),
        }
    }
    Ok(out)
}

fn assign_sections(items: &mut [NItem], counts: [u16; 4]) {
    let mut k = 0usize;
    for (s, c) in counts.iter().enumerate() {
        for _ in 0..*c {
            if k < items.len() {
                if items[k].section == 9 {
                    items[k].section = s as u8;
                }
                k += 1;
            }
        }
    }
}

/// Type of the `idx`-th item according to the reference walker, if it can tell.
fn item_rtype(bytes: &[u8], idx: usize) -> Option<u16> {
    // walk leniently: names by the reference reader, stop at the item
    if bytes.len() < 12 {
        return None;
    }
    let u = |i: usize| u16::from_be_bytes([bytes[i], bytes[i + 1]]);
    let qd = u(4) as usize;
    let mut p = 12;
    for i in 0.. {
        if i < qd {
            let (_, next, _) = w::read_name(bytes, p).ok()?;
            if i == idx {
                return None; // a question
            }
            p = next + 4;
        } else {
            let (_, next, _) = w::read_name(bytes, p).ok()?;
            if next + 10 > bytes.len() {
                return None;
            }
            let t = u(next);
            if i == idx {
                return Some(t);
            }
            p = next + 10 + u(next + 8) as usize;
        }
        if p > bytes.len() || i > 70000 {
            return None;
        }
    }
    None
}

/// Pointer targets reachable from the name at `pos` (up to 130 hops).
fn ptr_targets(bytes: &[u8], pos: usize) -> Vec<usize> {
    let mut out = Vec::new();
    let mut p = pos;
    for _ in 0..400 {
        if p >= bytes.len() {
            break;
        }
        let l = bytes[p] as usize;
        if l == 0 {
            break;
        }
        if l & 0xC0 == 0xC0 {
            if p + 1 >= bytes.len() {
                break;
            }
            let t = ((l & 0x3F) << 8) | bytes[p + 1] as usize;
            out.push(t);
            if out.len() > 130 {
                break;
            }
            p = t;
        } else if l & 0xC0 == 0 {
            p += 1 + l;
        } else {
            break;
        }
    }
    out
}

/// Why might the two codecs legitimately-by-design differ on item `idx`?
/// Returns a reason tag describing the shape of the failing item.
fn reason(bytes: &[u8], idx: usize) -> String {
    if bytes.len() < 12 {
        return "short".into();
    }
    let u = |i: usize| u16::from_be_bytes([bytes[i], bytes[i + 1]]);
    let qd = u(4) as usize;
    let mut p = 12;
    let skip_name = |p: usize| -> Option<usize> {
        let mut q = p;
        loop {
            let l = *bytes.get(q)? as usize;
            if l == 0 {
                return Some(q + 1);
            }
            if l & 0xC0 == 0xC0 {
                return Some(q + 2);
            }
            if l & 0xC0 != 0 {
                return None;
            }
            q += 1 + l;
        }
    };
    for i in 0..=idx {
        let Some(next) = skip_name(p) else { return "bad-label".into() };
        if i < qd {
            if i == idx {
                let t = ptr_targets(bytes, p);
                if t.iter().any(|x| *x < 12) {
                    return "pointer-into-header".into();
                }
                return "question".into();
            }
            p = next + 4;
        } else {
            if next + 10 > bytes.len() {
                return "short-record".into();
            }
            let t = u(next);
            let rdlen = u(next + 8) as usize;
            let rs = next + 10;
            if i == idx {
                let mut tags = Vec::new();
                if ptr_targets(bytes, p).iter().any(|x| *x < 12) {
                    tags.push("owner-pointer-into-header".to_string());
                }
                if rs + rdlen > bytes.len() {
                    return "rdata-beyond-message".into();
                }
                if rdlen == 0 {
                    tags.push("empty-rdata".into());
                }
                if t == w::T_NSEC {
                    if let Some(n) = skip_name(rs) {
                        if n == rs + rdlen {
                            tags.push("empty-type-bitmap".into());
                        }
                    }
                }
                if t == w::T_ZONEMD && rdlen < 6 + 12 {
                    tags.push("digest-shorter-than-12".into());
                }
                // names inside the RDATA by the layout table
                if let Some(lay) = w::layout(t) {
                    let mut q = rs;
                    for f in lay {
                        match f {
                            w::F::U8 => q += 1,
                            w::F::U16 => q += 2,
                            w::F::U32 | w::F::Ipv4 => q += 4,
                            w::F::U48 => q += 6,
                            w::F::Ipv6 => q += 16,
                            w::F::CharStr | w::F::Len8 => q += 1 + *bytes.get(q).unwrap_or(&0) as usize,
                            w::F::Name { compress, .. } => {
                                if q >= rs + rdlen {
                                    break;
                                }
                                let tg = ptr_targets(bytes, q);
                                if !tg.is_empty() {
                                    if tg.iter().any(|x| *x < 12) {
                                        tags.push("rdata-pointer-into-header".into());
                                    } else if !*compress {
                                        tags.push("compressed-name-in-non-rfc1035-rdata".into());
                                    } else if tg.iter().any(|x| *x >= rs) {
                                        tags.push("rdata-pointer-into-own-rdata".into());
                                    }
                                }
                                match skip_name(q) {
                                    Some(n) => q = n,
                                    None => break,
                                }
                            }
                            _ => break,
                        }
                        if q > rs + rdlen {
                            break;
                        }
                    }
                }
                let mut tags: Vec<String> = tags.into_iter().map(|t| if t.ends_with("pointer-into-header") { "pointer-into-header".to_string() } else { t }).collect();
                tags.sort();
                tags.dedup();
                if tags.iter().any(|t| t == "pointer-into-header") {
                    return "pointer-into-header".into();
                }
                if tags.is_empty() {
                    // describe the record for the witness
                    return "other".into();
                }
                return tags.join("+");
            }
            p = rs + rdlen;
        }
        if p > bytes.len() {
            return "beyond".into();
        }
    }
    "other".into()
}

/// The record sections read as fixed-size arrays of records through the new API (`[Record<_, BoxedRecordData>; N]`, an
/// element type that owns memory): N records are there for the new codec exactly when they are for the established one,
/// and a record that is broken in the middle of the array makes it a refusal, nothing worse.
fn arrays_one(c: &mut Ctx, fam: &str, idx: u64, bytes: &[u8], kind: &str) {
    use domain::new::base::parse::SplitMessageBytes;
    use domain::new::rdata::BoxedRecordData;
    if bytes.len() < 12 {
        return;
    }
    // where the answer section starts, by the reference reader
    let qd = u16::from_be_bytes([bytes[4], bytes[5]]) as usize;
    let mut p = 12;
    for _ in 0..qd.min(8) {
        match w::read_name(bytes, p) {
            Ok((_, next, _)) if next + 4 <= bytes.len() => p = next + 4,
            _ => return,
        }
    }
    if qd > 8 {
        return;
    }
    let start = p - 12;
    let contents = &bytes[12..];
    // how many records the established codec reads from there (header and record data both)
    let old_n = {
        let total = (u16::from_be_bytes([bytes[6], bytes[7]]) as usize + u16::from_be_bytes([bytes[8], bytes[9]]) as usize + u16::from_be_bytes([bytes[10], bytes[11]]) as usize).min(4);
        let mut n = 0;
        let mut parser = Parser::from_ref(bytes);
        if parser.advance(p).is_ok() {
            for _ in 0..total {
                let Ok(rec) = domain::base::record::ParsedRecord::parse(&mut parser) else { break };
                if rec.to_any_record::<AllRecordData<_, _>>().is_err() {
                    break;
                }
                n += 1;
            }
        }
        n
    };
    type R = NewRecord<RevNameBuf, BoxedRecordData>;
    let ex = || json!({"input_hex": hex(&bytes[..bytes.len().min(600)]), "kind": kind, "answer_section_at": p});
    let r = c.guard(fam, idx, ex, || {
        let one = <[R; 1]>::split_message_bytes(contents, start).is_ok();
        let two = <[R; 2]>::split_message_bytes(contents, start).is_ok();
        let three = <[R; 3]>::split_message_bytes(contents, start).map(|(a, _)| a.iter().map(|r| r.rdata.bytes().len()).sum::<usize>()).is_ok();
        let four = <[R; 4]>::split_message_bytes(contents, start).is_ok();
        [one, two, three, four]
    });
    let Some(got) = r else { return };
    c.count("arrays_of_records_parsed", got.iter().filter(|x| **x).count() as u64);
    c.count("arrays_of_records_refused", got.iter().filter(|x| !**x).count() as u64);
    // (monotone: if N records are there, so are N-1)
    for n in 1..4 {
        if got[n] && !got[n - 1] {
            c.violation("arrays:not-monotone", &format!("{} records are read as an array, {} are not", n + 1, n), c.replay_of(fam, idx, ex()));
            return;
        }
    }
    let new_n = got.iter().filter(|x| **x).count();
    if new_n < old_n.min(4) && !bytes[p..].windows(3).any(|w_| w_ == [0, 0, 41]) {
        // (the established codec reads them all; an OPT record is the new API's EDNS item and no Record)
        c.count("arrays_fewer_than_established", 1);
    }
    c.eval(&("arrays", kind, got, old_n.min(4)));
}

fn diff_one(c: &mut Ctx, fam: &str, idx: u64, bytes: &[u8], kind: &str) {
    ctx::slot_write(idx, &format!("{}|{}", fam, kind), bytes);
    arrays_one(c, fam, idx, bytes, kind);
    let ex = || json!({"input_hex": hex(bytes), "kind": kind});
    let r = ctx::catch(|| (new_read(bytes), old_read(bytes)));
    let (n, o) = match r {
        Ok(x) => x,
        Err(pi) => {
            let rp = c.replay_of(fam, idx, ex());
            c.violation(&format!("panic:{}", pi.site()), &format!("panic while parsing a {}-octet message ({}): {} at {}:{}", bytes.len(), kind, pi.msg, pi.file, pi.line), rp);
            return;
        }
    };
    let counts = if bytes.len() >= 12 { [4, 6, 8, 10].map(|i| u16::from_be_bytes([bytes[i], bytes[i + 1]])) } else { [0; 4] };
    if c.replaying() && std::env::var_os("DVERIF_DEBUG").is_some() {
        eprintln!("input: {}", hex(bytes));
        eprintln!("new: {:?}", n.as_ref().map(|v| v.iter().map(|i| (w::name_text(&i.owner), i.rtype, hex(&i.rdata[..i.rdata.len().min(30)]))).collect::<Vec<_>>()));
        eprintln!("old: {:?}", o.as_ref().map(|v| v.iter().map(|i| (w::name_text(&i.owner), i.rtype, hex(&i.rdata[..i.rdata.len().min(30)]))).collect::<Vec<_>>()));
    }
    match (n, o) {
        (Ok(mut ni), Ok(oi)) => {
            assign_sections(&mut ni, counts);
            c.count("both_accept", 1);
            // the new API's two reading routes give the same items
            match ctx::catch(|| new_read_low_level(bytes)) {
                Err(pi) => {
                    let rp = c.replay_of(fam, idx, ex());
                    c.violation(&format!("panic:{}", pi.site()), &format!("panic reading a message item by item with the new codec: {} at {}:{}", pi.msg, pi.file, pi.line), rp);
                    return;
                }
                Ok(Err(i)) => {
                    let rp = c.replay_of(fam, idx, ex());
                    c.violation("new-routes:item-wise-reading-refuses", &format!("MessageParser reads the message, reading it item by item (split_message_bytes, EdnsRecord::try_from) fails at item {}", i), rp);
                    return;
                }
                Ok(Ok(mut li)) => {
                    assign_sections(&mut li, counts);
                    if li.len() != ni.len() {
                        let rp = c.replay_of(fam, idx, ex());
                        c.violation("new-routes:item-count", &format!("MessageParser reads {} items, item-wise reading {}", ni.len(), li.len()), rp);
                        return;
                    }
                    for (k, (a, b)) in ni.iter().zip(&li).enumerate() {
                        if a.section != b.section || a.owner != b.owner || a.rtype != b.rtype || a.class != b.class || a.ttl != b.ttl || a.rdata != b.rdata {
                            let what = if a.rtype == 41 && b.rtype == 41 && (a.class != b.class || a.ttl != b.ttl) { "edns-fixed-fields" } else if a.rdata != b.rdata { "rdata" } else { "header-fields" };
                            let rp = c.replay_of(fam, idx, ex());
                            c.violation(&format!("new-routes:{}", what), &format!("item {} (TYPE{}): MessageParser gives class/size {} ttl {:#010x}, item-wise reading (split_message_bytes / EdnsRecord::try_from) class/size {} ttl {:#010x}", k, a.rtype, a.class, a.ttl, b.class, b.ttl), rp);
                            return;
                        }
                    }
                    c.count("new_routes_compared", 1);
                    if li.iter().any(|x| x.rtype == 41 && x.section == 3 && (x.ttl >> 24) != ((x.ttl >> 16) & 0xff)) {
                        c.count("edns_records_with_distinct_rcode_and_version", 1);
                    }
                }
            }
            if ni.len() != oi.len() {
                let rp = c.replay_of(fam, idx, ex());
                c.violation("both-accept:item-count", &format!("new codec reads {} items, established codec {}", ni.len(), oi.len()), rp);
                return;
            }
            for (k, (a, b)) in ni.iter().zip(&oi).enumerate() {
                if a != b {
                    let what = if a.owner != b.owner { "owner" } else if a.rdata != b.rdata { "rdata" } else { "fields" };
                    if what == "rdata" && !BOTH_KNOWN.contains(&b.rtype) && a.owner == b.owner && (a.section, a.rtype, a.class, a.ttl) == (b.section, b.rtype, b.class, b.ttl) {
                        // the new codec carries this type opaquely (compression pointers kept raw)
                        c.count("excluded_rdata_type_new_carries_opaquely", 1);
                        continue;
                    }
                    let tn = if w::layout(b.rtype).is_some() { w::type_name(b.rtype) } else { "UNKNOWN" };
                    let rp = c.replay_of(fam, idx, ex());
                    c.violation(&format!("both-accept:{}:{}", what, tn), &format!("item {} differs: new {:?} / established {:?}", k, (a.section, w::name_text(&a.owner), a.rtype, a.class, a.ttl, hex(&a.rdata[..a.rdata.len().min(48)])), (b.section, w::name_text(&b.owner), b.rtype, b.class, b.ttl, hex(&b.rdata[..b.rdata.len().min(48)]))), rp);
                    return;
                }
            }
            for it in ni.iter().filter(|i| i.rtype == 41) {
                opts_one(c, fam, idx, &it.rdata, kind);
            }
            c.eval(&("both", kind, ni.len().min(8), ni.iter().fold(0u64, |m, i| m | 1 << (i.rtype % 64))));
        }
        (Err(_), Err(_)) => {
            c.count("both_reject", 1);
            c.eval(&("none", kind));
        }
        (Ok(ni), Err(at)) => {
            // the established codec rejects: tolerated only if the failing item is of a type the new codec treats as opaque
            let t = if at == usize::MAX { None } else { item_rtype(bytes, at) };
            match t {
                Some(t) if !BOTH_KNOWN.contains(&t) => c.count("excluded_type_only_old_interprets", 1),
                _ => {
                    let tn = t.map(|t| if w::layout(t).is_some() { w::type_name(t).to_string() } else { "UNKNOWN".into() }).unwrap_or("non-record".into());
                    let rp = c.replay_of(fam, idx, ex());
                    let why = reason(bytes, at);
                    c.violation(&format!("accept-mismatch:new-accepts:{}:{}", tn, why), &format!("new codec accepts all {} items, established codec rejects item {} (type {:?}, {})", ni.len(), at, t, why), rp);
                }
            }
            c.eval(&("new-only", kind, t));
        }
        (Err(at), Ok(oi)) => {
            let t = oi.get(at).map(|i| i.rtype);
            let ref_ok = match w::parse_message(bytes) {
                Ok(m) => m.records.iter().all(|r| r.rdata.is_some()),
                Err(_) => false,
            };
            let why0 = reason(bytes, at);
            if !ref_ok || why0 == "pointer-into-header" {
                // RFC-malformed input on which the established codec is laxer than
                // the new one (pointers that do not lead to names, structurally
                // broken RDATA it does not look into): tolerated, counted.
                c.count("tolerated_old_laxer_on_malformed", 1);
                c.eval(&("old-only-malformed", kind, t));
                return;
            }
            let tn = t.map(|t| if w::layout(t).is_some() { w::type_name(t).to_string() } else { "UNKNOWN".into() }).unwrap_or("non-record".into());
            let rp = c.replay_of(fam, idx, ex());
            let why = reason(bytes, at);
            c.violation(&format!("accept-mismatch:old-accepts:{}:{}", tn, why), &format!("established codec accepts all {} items, new codec rejects item {} (type {:?}, {})", oi.len(), at, t, why), rp);
            c.eval(&("old-only", kind, t));
        }
    }
}

/// Option-level differential over the RDATA of an OPT record: both codecs
/// accept or reject the option sequence, see the same (code, data) pairs, and
/// give the same typed verdict on the options both interpret (COOKIE and
/// extended error).
fn opts_one(c: &mut Ctx, fam: &str, idx: u64, rdata: &[u8], kind: &str) {
    use domain::base::opt::{AllOptData, ComposeOptData, Opt as OldOpt, OptData, UnknownOptData};
    use domain::new::edns::EdnsOption;
    use domain::new::rdata::Opt as NewOpt;
    let ex = || json!({"opt_rdata_hex": hex(rdata), "kind": kind});
    // reference: a plain TLV walk
    let mut tlv: Vec<(u16, &[u8], &[u8])> = Vec::new();
    let mut p = 0;
    let mut well_formed = true;
    while p < rdata.len() {
        if p + 4 > rdata.len() {
            well_formed = false;
            break;
        }
        let code = u16::from_be_bytes([rdata[p], rdata[p + 1]]);
        let l = u16::from_be_bytes([rdata[p + 2], rdata[p + 3]]) as usize;
        if p + 4 + l > rdata.len() {
            well_formed = false;
            break;
        }
        tlv.push((code, &rdata[p + 4..p + 4 + l], &rdata[p..p + 4 + l]));
        p += 4 + l;
    }
    let r = ctx::catch(|| -> Result<(), (String, String)> {
        step("old::Opt::from_octets / new::Opt::parse_bytes");
        let old = OldOpt::from_octets(rdata);
        let new = <&NewOpt>::parse_bytes(rdata);
        if old.is_ok() != well_formed || new.is_ok() != well_formed {
            return Err(("opt:sequence-verdict".into(), format!("option sequence is {}well-formed; established codec {}, new codec {}", if well_formed { "" } else { "not " }, if old.is_ok() { "accepts" } else { "rejects" }, if new.is_ok() { "accepts" } else { "rejects" })));
        }
        let (Ok(old), Ok(new)) = (old, new) else { return Ok(()) };
        // raw pairs
        step("old::Opt::iter<UnknownOptData>");
        let mut old_pairs: Vec<(u16, Vec<u8>)> = Vec::new();
        for o in old.iter::<UnknownOptData<_>>() {
            let o = o.map_err(|e| ("opt:old-raw-iteration".to_string(), format!("raw iteration fails: {}", e)))?;
            let mut b = Vec::new();
            o.compose_option(&mut b).unwrap();
            old_pairs.push((o.code().to_int(), b));
        }
        step("new::Opt::options");
        let mut new_pairs: Vec<(u16, Vec<u8>, bool)> = Vec::new();
        for o in new.options() {
            match o {
                Ok(o) => {
                    let b = build_to_vec(&o).ok_or(("opt:new-rebuild".to_string(), "cannot rebuild a parsed option".to_string()))?;
                    if b.len() < 4 {
                        return Err(("opt:new-rebuild".into(), "rebuilt option shorter than its header".into()));
                    }
                    new_pairs.push((u16::from_be_bytes([b[0], b[1]]), b[4..].to_vec(), true));
                }
                Err(u) => new_pairs.push((u.code.code.get(), u.data.as_bytes()[2..].to_vec(), false)),
            }
            if new_pairs.len() > 70000 {
                return Err(("cap:new::Opt::options".into(), "more options than octets".into()));
            }
        }
        let want: Vec<(u16, Vec<u8>)> = tlv.iter().map(|(c, d, _)| (*c, d.to_vec())).collect();
        if old_pairs != want {
            return Err(("opt:old-pairs-differ".into(), format!("established codec iterates {} options, the sequence holds {}", old_pairs.len(), want.len())));
        }
        if new_pairs.iter().map(|(c, d, _)| (*c, d.clone())).collect::<Vec<_>>() != want {
            return Err(("opt:new-pairs-differ".into(), format!("new codec iterates {} options, the sequence holds {}", new_pairs.len(), want.len())));
        }
        // typed verdicts, option by option
        for (k, (code, data, whole)) in tlv.iter().enumerate() {
            if *code != 10 && *code != 15 {
                continue;
            }
            step("old::AllOptData / new::EdnsOption on one option");
            let old_typed = OldOpt::from_octets(*whole).ok().and_then(|o| o.iter::<AllOptData<_, _>>().next()).map(|r| r.is_ok()).unwrap_or(false);
            let new_typed = EdnsOption::parse_bytes(whole).is_ok();
            if new_typed != new_pairs[k].2 {
                return Err(("opt:new-iterator-vs-parse".into(), format!("option {} (code {}): the iterator and EdnsOption::parse_bytes disagree", k, code)));
            }
            let name = if *code == 10 { "COOKIE" } else { "EXT_ERROR" };
            if *code == 15 && old_typed && !new_typed && data.len() >= 2 && std::str::from_utf8(&data[2..]).is_err() {
                // the established codec keeps text that is not UTF-8 as raw octets, the new one holds a str
                c.count("opts_ext_error_text_not_utf8", 1);
                continue;
            }
            if old_typed != new_typed {
                return Err((format!("opt:typed-verdict:{}", name), format!("option {} ({}, {} octets of data {}): established codec {}, new codec {}", k, name, data.len(), hex(&data[..data.len().min(44)]), if old_typed { "interprets it" } else { "rejects it" }, if new_typed { "interprets it" } else { "rejects it" })));
            }
            c.count(if old_typed { "opts_typed_both_interpret" } else { "opts_typed_both_reject" }, 1);
            if *code == 10 && data.len() == 40 {
                c.count("opts_cookie_40_octets", 1);
            }
        }
        c.count("opts_sequences_both_accept", 1);
        Ok(())
    });
    match r {
        Ok(Ok(())) => {}
        Ok(Err((sig, what))) => {
            let rp = c.replay_of(fam, idx, ex());
            c.violation(&sig, &what, rp);
        }
        Err(pi) => {
            let rp = c.replay_of(fam, idx, ex());
            c.violation(&format!("panic:{}", pi.site()), &format!("panic reading OPT options ({}): {} at {}:{}", kind, pi.msg, pi.file, pi.line), rp);
        }
    }
    c.eval(&("opts", kind, well_formed, tlv.len().min(5), tlv.iter().fold(0u32, |m, t| m | 1 << (t.0 % 32))));
}

/// Name-level differential at given offsets.
fn names_one(c: &mut Ctx, fam: &str, idx: u64, bytes: &[u8], offsets: &[usize]) {
    if bytes.len() < 12 {
        return;
    }
    for &p in offsets {
        if p < 12 || p >= bytes.len() {
            continue;
        }
        let ex = || json!({"input_hex": hex(bytes), "offset": p});
        let r = ctx::catch(|| {
            step("old::ParsedName::parse");
            let mut ps = Parser::from_ref(bytes);
            ps.advance(p).unwrap();
            let o = ParsedName::parse(&mut ps).ok().map(|n| (n.to_vec().as_slice().to_vec(), ps.pos()));
            step("new::RevNameBuf::split_message_bytes");
            let nr = RevNameBuf::split_message_bytes(&bytes[12..], p - 12).ok().map(|(n, e)| (n.to_name().as_bytes().to_vec(), e + 12));
            step("new::NameBuf::split_message_bytes");
            let nn = NameBuf::split_message_bytes(&bytes[12..], p - 12).ok().map(|(n, e)| (n.as_bytes().to_vec(), e + 12));
            (o, nr, nn)
        });
        match r {
            Ok((o, nr, nn)) => {
                if nr != nn {
                    let rp = c.replay_of(fam, idx, ex());
                    c.violation("name:new-revname-vs-name", &format!("RevNameBuf and NameBuf disagree at offset {}: {:?} / {:?}", p, nr.as_ref().map(|x| hex(&x.0)), nn.as_ref().map(|x| hex(&x.0))), rp);
                } else if o.is_some() && nn.is_none() && w::read_name(bytes, p).map_or(true, |(_, _, _)| ptr_targets(bytes, p).iter().any(|t| *t < 12)) {
                    c.count("tolerated_old_laxer_on_malformed_name", 1);
                } else if o.is_some() != nn.is_some() {
                    let rp = c.replay_of(fam, idx, ex());
                    let who = if o.is_some() { "old-accepts" } else { "new-accepts" };
                    c.violation(&format!("name:accept-mismatch:{}", who), &format!("name at offset {}: established {:?}, new {:?}", p, o.as_ref().map(|x| hex(&x.0)), nn.as_ref().map(|x| hex(&x.0))), rp);
                } else if o != nn {
                    let rp = c.replay_of(fam, idx, ex());
                    c.violation("name:both-accept-differ", &format!("name at offset {}: established {:?}, new {:?}", p, o, nn), rp);
                }
                c.count(if o.is_some() { "names_both_accept" } else { "names_both_reject" }, 1);
                c.eval(&("name", o.is_some(), nn.is_some(), o.as_ref().map(|x| x.0.len() / 16)));
            }
            Err(pi) => {
                let rp = c.replay_of(fam, idx, ex());
                c.violation(&format!("panic:{}", pi.site()), &format!("panic parsing a name at offset {}: {} at {}:{}", p, pi.msg, pi.file, pi.line), rp);
            }
        }
    }
}

// -------------------------------------------------------------- build --

#[derive(Clone)]
struct ModelItem {
    section: u8,
    owner: Vec<u8>,
    rtype: u16,
    class: u16,
    ttl: u32,
    fs: Vec<Fv>,
}

fn build_types() -> Vec<u16> {
    vec![w::T_A, w::T_NS, w::T_CNAME, w::T_SOA, w::T_PTR, w::T_MX, w::T_TXT, w::T_AAAA, w::T_HINFO, w::T_SRV, w::T_RP, w::T_DNAME, w::T_DS, w::T_DNSKEY, w::T_NSEC3PARAM, 65280]
}

/// Like `build_new`, but names go through the `Name` (not `RevName`) compression path.
fn build_new_fwd(items: &[ModelItem], bufsize: usize, id: u16) -> (Vec<u8>, Vec<bool>) {
    use domain::new::base::name::Name as NewName;
    use domain::new::base::ParseRecordDataBytes;
    let mut buffer = vec![0u8; bufsize.max(12)];
    let mut comp = NameCompressor::default();
    let mut accepted = Vec::new();
    let len;
    {
        let mut b = NewBuilder::new(&mut buffer, &mut comp, U16::new(id), *HeaderFlags::default().set_qr(true));
        for it in items {
            let owner: &NewName = <&NewName>::parse_bytes(&it.owner).expect("harness: valid owner");
            let ok = if it.section == 0 {
                b.push_question(&NewQuestion { qname: owner, qtype: QType { code: U16::new(it.rtype) }, qclass: QClass { code: U16::new(it.class) } }).is_ok()
            } else {
                let wire = w::compose_fields(&it.fs);
                let rd: NewRecordData<'_, &NewName> = match NewRecordData::parse_record_data_bytes(&wire, RType { code: U16::new(it.rtype) }) {
                    Ok(r) => r,
                    Err(_) => {
                        accepted.push(false);
                        continue;
                    }
                };
                let rec = NewRecord { rname: owner, rtype: RType { code: U16::new(it.rtype) }, rclass: RClass { code: U16::new(it.class) }, ttl: TTL { value: U32::new(it.ttl) }, rdata: rd };
                match it.section {
                    1 => b.push_answer(&rec).is_ok(),
                    2 => b.push_authority(&rec).is_ok(),
                    _ => b.push_additional(&rec).is_ok(),
                }
            };
            accepted.push(ok);
        }
        len = b.finish().as_bytes().len();
    }
    buffer.truncate(len);
    (buffer, accepted)
}

fn build_new(items: &[ModelItem], bufsize: usize, id: u16) -> (Vec<u8>, Vec<bool>) {
    build_new_after(&[], items, bufsize, id)
}

/// Like `build_new`, but the builder first takes the items of `discarded` and is then cut back with `truncate()` (the way a
/// response that turned out too large is started over): what follows must come out as from a fresh builder, TC bit aside.
fn build_new_after(discarded: &[ModelItem], items: &[ModelItem], bufsize: usize, id: u16) -> (Vec<u8>, Vec<bool>) {
    let mut buffer = vec![0u8; bufsize.max(12)];
    let mut comp = NameCompressor::default();
    let mut accepted = Vec::new();
    let len;
    {
        let mut b = NewBuilder::new(&mut buffer, &mut comp, U16::new(id), *HeaderFlags::default().set_qr(true));
        let total = discarded.len();
        for (k, it) in discarded.iter().chain(items.iter()).enumerate() {
            if k == total && total > 0 {
                b.truncate();
                accepted.clear();
            }
            let owner = RevNameBuf::parse_bytes(&it.owner).expect("harness: valid owner");
            let ok = if it.section == 0 {
                b.push_question(&NewQuestion { qname: owner, qtype: QType { code: U16::new(it.rtype) }, qclass: QClass { code: U16::new(it.class) } }).is_ok()
            } else {
                let wire = w::compose_fields(&it.fs);
                let rd: NewRecordData<'_, RevNameBuf> = match NewRecordData::parse_record_data(&wire, 0, RType { code: U16::new(it.rtype) }) {
                    Ok(r) => r,
                    Err(_) => {
                        accepted.push(false);
                        continue;
                    }
                };
                let rec = NewRecord { rname: owner, rtype: RType { code: U16::new(it.rtype) }, rclass: RClass { code: U16::new(it.class) }, ttl: TTL { value: U32::new(it.ttl) }, rdata: rd };
                match it.section {
                    1 => b.push_answer(&rec).is_ok(),
                    2 => b.push_authority(&rec).is_ok(),
                    _ => b.push_additional(&rec).is_ok(),
                }
            };
            accepted.push(ok);
        }
        if total > 0 && items.is_empty() {
            b.truncate();
            accepted.clear();
        }
        len = b.finish().as_bytes().len();
    }
    buffer.truncate(len);
    (buffer, accepted)
}

fn build_old(items: &[ModelItem], limit: usize, id: u16) -> (Vec<u8>, Vec<bool>) {
    let mut mb = OldBuilder::from_target(TreeCompressor::new(Vec::new())).unwrap();
    mb.header_mut().set_id(id);
    mb.header_mut().set_qr(true);
    mb.set_push_limit(limit + 1);
    let mut accepted = Vec::new();
    let mut q = mb.question();
    for it in items.iter().filter(|i| i.section == 0) {
        accepted.push(q.push(OldQuestion::new(OldName::<Vec<u8>>::from_octets(it.owner.clone()).unwrap(), Rtype::from_int(it.rtype), Class::from_int(it.class))).is_ok());
    }
    fn rec(it: &ModelItem) -> Option<OldRecord<OldName<Vec<u8>>, AllRecordData<Vec<u8>, OldName<Vec<u8>>>>> {
        let wire = w::compose_fields(&it.fs);
        let mut buf = vec![0u8; 12];
        buf.extend_from_slice(&wire);
        let mut p = Parser::from_ref(&buf[..]);
        p.advance(12).ok()?;
        let mut sub = p.parse_parser(wire.len()).ok()?;
        let d = AllRecordData::<&[u8], ParsedName<&[u8]>>::parse_any_rdata(Rtype::from_int(it.rtype), &mut sub).ok()?;
        let d: AllRecordData<Vec<u8>, OldName<Vec<u8>>> = d.try_flatten_into().ok()?;
        Some(OldRecord::new(OldName::from_octets(it.owner.clone()).ok()?, Class::from_int(it.class), Ttl::from_secs(it.ttl), d))
    }
    let mut an = q.answer();
    for it in items.iter().filter(|i| i.section == 1) {
        accepted.push(rec(it).map_or(false, |r| an.push(&r).is_ok()));
    }
    let mut au = an.authority();
    for it in items.iter().filter(|i| i.section == 2) {
        accepted.push(rec(it).map_or(false, |r| au.push(&r).is_ok()));
    }
    let mut ad = au.additional();
    for it in items.iter().filter(|i| i.section == 3) {
        accepted.push(rec(it).map_or(false, |r| ad.push(&r).is_ok()));
    }
    (ad.finish().into_target(), accepted)
}

fn model_items(items: &[ModelItem], accepted: &[bool]) -> Vec<NItem> {
    items.iter().zip(accepted).filter(|(_, a)| **a).map(|(i, _)| NItem { section: i.section, owner: i.owner.clone(), rtype: i.rtype, class: i.class, ttl: i.ttl, rdata: if i.section == 0 { vec![] } else { w::compose_fields_lower_all(&i.fs) } }).collect()
}

/// Normalise items read back for comparison with the model (names compared
/// case-insensitively: compression may change the spelling).
fn norm(items: &[NItem]) -> Vec<NItem> {
    items
        .iter()
        .map(|i| {
            let rd = if i.section == 0 {
                vec![]
            } else {
                let mut b = vec![0u8; 12];
                b.extend_from_slice(&i.rdata);
                match w::decode_rdata(&b, 12, i.rdata.len(), i.rtype) {
                    Ok(fs) => w::compose_fields_lower_all(&fs),
                    Err(_) => i.rdata.clone(),
                }
            };
            NItem { section: i.section, owner: w::lower(&i.owner), rtype: i.rtype, class: i.class, ttl: i.ttl, rdata: rd }
        })
        .collect()
}

fn build_one(c: &mut Ctx, fam: &str, idx: u64, rng: &mut Rng) {
    let pool = g::NamePool::new(rng, 6);
    let types = build_types();
    let mut items: Vec<ModelItem> = Vec::new();
    let size_class = idx % 5; // 0 small, 1 small buffer (failing pushes), 2 across 16384, 3 large, 4 many distinct names
    // filler so that later names land around message offset 16384
    if size_class == 2 || size_class == 3 {
        let target: usize = if size_class == 2 { (16384 + rng.range(0, 60)) - 30 } else { rng.range(20000, 40000) };
        let mut cur = 12usize;
        while cur + 11 < target {
            let rdl = (target - cur - 11).min(3000);
            items.push(ModelItem { section: 1, owner: vec![0], rtype: 65280, class: 1, ttl: 1, fs: vec![Fv::Raw(vec![0x5A; rdl])] });
            cur += 11 + rdl;
        }
    } else if rng.chance(2, 3) {
        items.push(ModelItem { section: 0, owner: pool.pick(rng), rtype: *rng.pick(&types), class: 1, ttl: 0, fs: vec![] });
    }
    // many distinct names in a few hierarchies, used in an order that makes a bounded
    // compression table evict and reuse its slots (suffix, child, grandchild ... unrelated names ... siblings)
    let big_pool: Vec<Vec<u8>> = if size_class == 4 {
        let mut v: Vec<Vec<u8>> = Vec::new();
        let mut host = 0;
        for z in 0..rng.range(3, 8) {
            // some zones share a top-level label, most have their own (so that nothing keeps their entries in use)
            let tld: Vec<u8> = if rng.chance(1, 3) { rng.pick(&[&b"test"[..], b"example", b"Test"]).to_vec() } else { format!("tld{}", z).into_bytes() };
            let zone = names::from_labels(&[format!("zone-{}", z).into_bytes(), tld]);
            v.push(zone.clone());
            for _ in 0..rng.range(1, 4) {
                // few child labels: the same one turns up under several zones
                let ch: Vec<u8> = rng.pick(&[&b"www"[..], b"mail", b"ns1"]).to_vec();
                let mut child = vec![ch.len() as u8];
                child.extend_from_slice(&ch);
                child.extend_from_slice(&zone);
                v.push(child.clone());
                for _ in 0..rng.below(3) {
                    let g = names::small_label(rng);
                    let mut gc = vec![g.len() as u8];
                    gc.extend_from_slice(&g);
                    gc.extend_from_slice(&child);
                    v.push(gc);
                }
            }
            // unrelated single-label names in between
            for _ in 0..rng.range(0, 40) {
                host += 1;
                v.push(names::from_labels(&[format!("host{:02}", host).into_bytes()]));
            }
        }
        v
    } else {
        Vec::new()
    };
    // one in ten of these scripts is the plain pattern: a zone, a child, a grandchild, some thirty
    // unrelated names (as many as the table of a bounded compressor holds, give or take), another
    // zone and its child of the same label -- all A records, nothing else touching the names
    if size_class == 4 && idx % 50 == 9 {
        let between = 24 + (idx / 50) % 14;
        let child = rng.pick(&[&b"www"[..], b"mail", b"ns1"]).to_vec();
        let mut seq: Vec<Vec<u8>> = vec![names::from_labels(&[b"q".to_vec(), b"invalid".to_vec()])];
        let za = names::from_labels(&[b"zone-a".to_vec(), b"test".to_vec()]);
        let zb = names::from_labels(&[b"zone-b".to_vec(), b"example".to_vec()]);
        let under = |l: &[u8], n: &[u8]| { let mut v = vec![l.len() as u8]; v.extend_from_slice(l); v.extend_from_slice(n); v };
        seq.push(za.clone());
        seq.push(under(&child, &za));
        seq.push(under(b"Example", &under(&child, &za)));
        for i in 0..between {
            seq.push(names::from_labels(&[format!("host{:02}", i).into_bytes()]));
        }
        seq.push(names::from_labels(&[b"filler".to_vec(), b"invalid-b".to_vec()]));
        seq.push(zb.clone());
        seq.push(under(&child, &zb));
        let regress = (idx / 50) % 2 == 1;
        for (k, o) in seq.iter().enumerate() {
            items.push(ModelItem { section: 1, owner: o.clone(), rtype: w::T_A, class: 1, ttl: 300, fs: vec![Fv::Raw(rng.bytes(4))] });
            if regress && k == 3 {
                // the grandchild once more, as the target of a CNAME (written as a bare pointer), and
                // right behind it a short sibling of the child: the zone's entry is used twice in a
                // row, the second time with fewer labels in front of it
                items.push(ModelItem { section: 1, owner: seq[0].clone(), rtype: w::T_CNAME, class: 1, ttl: 300, fs: vec![Fv::Name { wire: o.clone(), lc: true, compress: true }] });
                items.push(ModelItem { section: 1, owner: under(b"m", &za), rtype: w::T_A, class: 1, ttl: 300, fs: vec![Fv::Raw(rng.bytes(4))] });
            }
        }
    }
    // labels whose 16-bit hash in the new compressor is zero, below the first name of the message
    // (a lookup for "child of entry 0 with hash 0" must not take an empty table slot for a match)
    let hash_zero = size_class == 4 && matches!(idx % 50, 14 | 19);
    if hash_zero {
        let base = names::from_labels(&[b"x".to_vec(), b"example".to_vec()]);
        items.push(ModelItem { section: 1, owner: base.clone(), rtype: w::T_A, class: 1, ttl: 300, fs: vec![Fv::Raw(rng.bytes(4))] });
        for l in ["h18557", "host18585", "www58570", "n22283", "H26934", "host19099"] {
            if rng.bool() {
                let mut o = vec![l.len() as u8];
                o.extend_from_slice(l.as_bytes());
                o.extend_from_slice(&base);
                items.push(ModelItem { section: 1, owner: o.clone(), rtype: w::T_NS, class: 1, ttl: 300, fs: vec![Fv::Name { wire: o, lc: true, compress: true }] });
            }
        }
    }
    let n = if size_class == 4 && idx % 50 == 9 || hash_zero { 0 } else if size_class == 4 { big_pool.len() + rng.range(0, 30) } else { rng.range(2, 14) };
    let mut sec = 1u8;
    for k in 0..n {
        if size_class == 4 {
            if rng.chance(1, 60) && sec < 3 {
                sec += 1;
            }
            // walk the pool roughly in order, with jumps back to names used long ago
            let at = (k * big_pool.len() / n).min(big_pool.len() - 1);
            let owner = if rng.chance(1, 12) { rng.pick(&big_pool).clone() } else { big_pool[at].clone() };
            // targets mostly near the owner in the pool (the same hierarchy), now and then anywhere
            let near = |rng: &mut Rng| -> Vec<u8> { if rng.chance(1, 10) { rng.pick(&big_pool).clone() } else { big_pool[(at + rng.below(3)).min(big_pool.len() - 1)].clone() } };
            let (t, fs) = match rng.below(6) {
                0..=2 => (w::T_A, vec![Fv::Raw(rng.bytes(4))]),
                3 => (w::T_NS, vec![Fv::Name { wire: near(rng), lc: true, compress: true }]),
                4 => (w::T_CNAME, vec![Fv::Name { wire: near(rng), lc: true, compress: true }]),
                _ => (w::T_MX, vec![Fv::Raw(rng.u16().to_be_bytes().to_vec()), Fv::Name { wire: near(rng), lc: true, compress: true }]),
            };
            items.push(ModelItem { section: sec, owner, rtype: t, class: 1, ttl: rng.u32() >> 1, fs });
            continue;
        }
        if rng.chance(1, 4) && sec < 3 {
            sec += 1;
        }
        let t = *rng.pick(&types);
        let mut np = |r: &mut Rng| if r.chance(1, 8) { names::abs_name(r) } else { pool.pick(r) };
        let fs = g::fields(rng, t, &mut np);
        if w::compose_fields(&fs).len() > 3000 {
            continue;
        }
        items.push(ModelItem { section: sec, owner: pool.pick(rng), rtype: t, class: 1, ttl: rng.u32() >> 1, fs });
    }
    // questions first (the builders demand section order)
    items.sort_by_key(|i| i.section);
    let bufsize = match size_class {
        1 => rng.range(40, 300),
        _ => 65535,
    };
    let id = rng.u16();
    let ex = || json!({"size_class": size_class, "bufsize": bufsize, "items": items.iter().map(|i| json!({"section": i.section, "owner": w::name_text(&i.owner), "type": i.rtype, "rdata": hex(&w::compose_fields(&i.fs)[..w::compose_fields(&i.fs).len().min(24)])})).collect::<Vec<_>>()});
    let res = ctx::catch(|| {
        step("new::MessageBuilder");
        let (nb, nacc) = if (idx / 5) % 2 == 1 { build_new_fwd(&items, bufsize, id) } else { build_new(&items, bufsize, id) };
        step("old::MessageBuilder");
        let (ob, oacc) = build_old(&items, bufsize, id);
        (nb, nacc, ob, oacc)
    });
    let (nb, nacc, ob, oacc) = match res {
        Ok(x) => x,
        Err(pi) => {
            let rp = c.replay_of(fam, idx, ex());
            c.violation(&format!("panic:{}", pi.site()), &format!("panic while building: {} at {}:{}", pi.msg, pi.file, pi.line), rp);
            return;
        }
    };
    if nacc.iter().any(|a| !a) {
        c.count("new_failed_pushes", nacc.iter().filter(|a| !**a).count() as u64);
    }
    // started over: everything pushed once, the builder cut back with truncate(), and a tail of the items (or all of
    // them) pushed again must give what a fresh builder gives for those items, with TC set
    if idx % 3 == 0 && !items.is_empty() {
        let from = if rng.bool() { 0 } else { rng.below(items.len()) };
        let again: Vec<ModelItem> = items[from..].iter().filter(|i| i.section != 0 || from == 0).cloned().collect();
        let r = ctx::catch(|| {
            step("new::MessageBuilder::truncate");
            let (tb, tacc) = build_new_after(&items, &again, bufsize, id);
            let (fb, facc) = build_new(&again, bufsize, id);
            (tb, tacc, fb, facc)
        });
        match r {
            Err(pi) => {
                let rp = c.replay_of(fam, idx, ex());
                c.violation(&format!("panic:{}", pi.site()), &format!("panic while building after truncate(): {} at {}:{}", pi.msg, pi.file, pi.line), rp);
                return;
            }
            Ok((tb, tacc, mut fb, facc)) => {
                if fb.len() >= 12 {
                    fb[2] |= 0x02;
                }
                if tb != fb || tacc != facc {
                    let p = tb.iter().zip(fb.iter()).position(|(a, b)| a != b).unwrap_or(tb.len().min(fb.len()));
                    let rp = c.replay_of(fam, idx, ex());
                    c.violation("new-built:after-truncate-differs-from-fresh", &format!("{} items pushed, truncate(), then {} items pushed again: {} octets, a fresh builder given the same {} items makes {} octets (TC aside); first difference at {}", items.len(), again.len(), tb.len(), again.len(), fb.len(), p), rp);
                    return;
                }
                c.count("new_builder_started_over_after_truncate", 1);
            }
        }
    }
    if c.replaying() && std::env::var_os("DVERIF_DEBUG").is_some() {
        eprintln!("new-built ({} octets): {}", nb.len(), hex(&nb[..nb.len().min(1200)]));
        eprintln!("new accepted: {:?}", nacc);
        eprintln!("old-built ({} octets): {}", ob.len(), hex(&ob[..ob.len().min(1200)]));
        eprintln!("old accepted: {:?}", oacc);
        for (k, it) in items.iter().enumerate() {
            eprintln!("item {}: sec {} owner {} type {} rdata {}", k, it.section, w::name_text(&it.owner), it.rtype, hex(&w::compose_fields(&it.fs)[..w::compose_fields(&it.fs).len().min(80)]));
        }
    }
    if nb.len() > 16384 + 12 {
        c.count("new_messages_beyond_16384", 1);
    }
    for (which, bytes, acc) in [("new-built", &nb, &nacc), ("old-built", &ob, &oacc)] {
        let want = norm(&model_items(&items, acc));
        // reference reader + pointer scan
        let (parsed, tr) = w::with_trace(|| w::parse_message(bytes));
        match parsed {
            Ok(m) => {
                let mut got: Vec<NItem> = m.questions.iter().map(|q| NItem { section: 0, owner: q.name.clone(), rtype: q.qtype, class: q.qclass, ttl: 0, rdata: vec![] }).collect();
                got.extend(m.records.iter().map(|r| NItem { section: r.section, owner: r.owner.clone(), rtype: r.rtype, class: r.class, ttl: r.ttl, rdata: r.rdata.clone().unwrap_or_default() }));
                if norm(&got) != want {
                    let k = norm(&got).iter().zip(&want).position(|(a, b)| a != b);
                    let rp = c.replay_of(fam, idx, ex());
                    c.violation(&format!("{}:reference-reads-differently", which), &format!("{} message read by the reference walker differs from what was pushed (first difference at item {:?} of {} / {})", which, k, got.len(), want.len()), rp);
                    return;
                }
                for (p, t, known) in &tr.pointers {
                    if t >= p || !known {
                        let rp = c.replay_of(fam, idx, ex());
                        c.violation(&format!("{}:bad-pointer", which), &format!("pointer at {} -> {} is not a backward pointer to a label start", p, t), rp);
                        return;
                    }
                }
                c.count(&format!("{}_pointers", which), tr.pointers.len() as u64);
            }
            Err(e) => {
                let rp = c.replay_of(fam, idx, ex());
                c.violation(&format!("{}:reference-unparseable", which), &format!("{} message ({} octets) cannot be parsed by the reference walker: {:?}", which, bytes.len(), e), rp);
                return;
            }
        }
        // cross-reading by both codecs
        let counts = [4, 6, 8, 10].map(|i| u16::from_be_bytes([bytes[i], bytes[i + 1]]));
        let r = ctx::catch(|| (new_read(bytes), old_read(bytes)));
        match r {
            Ok((n, o)) => {
                for (reader, items_read) in [("new-reads", n), ("old-reads", o)] {
                    match items_read {
                        Ok(mut v) => {
                            assign_sections(&mut v, counts);
                            if norm(&v) != want {
                                let k = norm(&v).iter().zip(&want).position(|(a, b)| a != b);
                                let rp = c.replay_of(fam, idx, ex());
                                c.violation(&format!("{}:{}:differs", which, reader), &format!("{} message as read by the {} codec differs from what was pushed (first difference at item {:?}; {} vs {} items)", which, &reader[..3], k, v.len(), want.len()), rp);
                                return;
                            }
                        }
                        Err(at) => {
                            let rp = c.replay_of(fam, idx, ex());
                            c.violation(&format!("{}:{}:rejects", which, reader), &format!("{} message is rejected by the {} codec at item {}", which, &reader[..3], at), rp);
                            return;
                        }
                    }
                }
            }
            Err(pi) => {
                let rp = c.replay_of(fam, idx, ex());
                c.violation(&format!("panic:{}", pi.site()), &format!("panic cross-reading a {} message: {}", which, pi.msg), rp);
                return;
            }
        }
    }
    // the zero-copy containers: a message parsed in place inside a mutable slice and inside a
    // box is written through (this is what the builder does with its buffer) and reads the same
    if idx % 7 == 3 {
        use domain::new::base::parse::ParseBytesZC;
        use domain::new::base::Message as NewMessage;
        let r = ctx::catch(|| {
            let mut a = nb.clone();
            let ma = NewMessage::parse_bytes_in(&mut a[..]).map_err(|_| ())?;
            ma.header.id = U16::new(0x4242);
            if let Some(x) = ma.contents.first_mut() {
                *x ^= 0;
            }
            let first = ma.as_bytes().to_vec();
            let bx: Box<[u8]> = nb.clone().into_boxed_slice();
            let mut mb = NewMessage::parse_bytes_in(bx).map_err(|_| ())?;
            mb.header.id = U16::new(0x4242);
            let second = mb.as_bytes().to_vec();
            Ok::<_, ()>((first, second))
        });
        match r {
            Ok(Ok((f, sd))) => {
                let mut want = nb.clone();
                want[0] = 0x42;
                want[1] = 0x42;
                if f != want || sd != want {
                    c.violation("in-place:message-differs", "a message parsed in place and given another ID does not hold the same octets otherwise", c.replay_of(fam, idx, ex()));
                    return;
                }
                c.count("in_place_containers_written", 1);
            }
            Ok(Err(())) => {
                c.violation("in-place:rejected", "a built message is refused by Message::parse_bytes_in", c.replay_of(fam, idx, ex()));
                return;
            }
            Err(pi) => {
                c.violation(&format!("panic:{}", pi.site()), &format!("panic parsing a message in place: {}", pi.msg), c.replay_of(fam, idx, ex()));
                return;
            }
        }
    }
    c.count("build_scripts", 1);
    if size_class == 4 {
        c.count("build_scripts_with_many_names", 1);
    }
    c.eval(&("build", size_class, items.len().min(12), nacc.iter().filter(|a| !**a).count().min(3), nb.len() / 4096));
    if c.want_sample() && idx % 19 == 2 {
        c.sample(json!({"family": "build", "size_class": size_class, "items": items.len(), "new_octets": nb.len(), "old_octets": ob.len(), "new_failed_pushes": nacc.iter().filter(|a| !**a).count()}));
    }
}

/// The record-data containers of the new API handed octets directly (the trait method is public, no RDLENGTH in front): the
/// established codec carries at most 65535 octets of record data (`UnknownRecordData::from_octets`), and so must they - and
/// what they accept they must hold unchanged.
fn rdata_direct(c: &mut Ctx) {
    use domain::base::rdata::UnknownRecordData;
    use domain::new::base::ParseRecordDataBytes;
    use domain::new::rdata::BoxedRecordData;
    let fam = "rdata-direct";
    let sizes: [usize; 16] = [0, 1, 2, 4, 255, 256, 4096, 65534, 65535, 65536, 65537, 65540, 70000, 131071, 131072, 131077];
    for (ti, t) in [65280u16, w::T_TXT, 0, 4242, w::T_A, w::T_OPT].into_iter().enumerate() {
        for (si, n) in sizes.iter().enumerate() {
            let idx = (ti * sizes.len() + si) as u64;
            let mut rng = c.case_rng(fam, idx);
            // TXT: well-formed strings all the way; others: opaque octets
            let mut bytes = Vec::with_capacity(*n);
            if t == w::T_TXT {
                while bytes.len() < *n {
                    let l = (*n - bytes.len() - 1).min(255);
                    bytes.push(l as u8);
                    bytes.extend(std::iter::repeat(b'x').take(l));
                }
            } else {
                bytes = rng.bytes(*n);
            }
            let bytes = ctx::exact(&bytes);
            let old_ok = UnknownRecordData::from_octets(Rtype::from_int(t), &bytes[..]).is_ok();
            let ex = json!({"rtype": t, "size": n});
            let r = ctx::catch(|| {
                let boxed = BoxedRecordData::parse_record_data_bytes(&bytes, RType::from(t));
                let unparsed = <&domain::new::base::UnparsedRecordData>::parse_record_data_bytes(&bytes, RType::from(t)).is_ok();
                let held = boxed.as_ref().ok().map(|b| {
                    let cl = b.clone();
                    let same = cl == *b;
                    let built = build_to_vec(b);
                    let _ = b.get();
                    (b.bytes().to_vec(), u16::from(b.rtype()), same, built)
                });
                (boxed.is_ok(), unparsed, held)
            });
            c.eval(&("rdata-direct", t, *n > 65535, old_ok));
            match r {
                Err(pi) => c.violation(&format!("panic:{}", pi.site()), &format!("panic handing {} octets of TYPE{} record data to the new containers: {} at {}:{}", n, t, pi.msg, pi.file, pi.line), c.replay_of(fam, idx, ex)),
                Ok((boxed_ok, unparsed_ok, held)) => {
                    // (typed data may be refused for its contents; the size verdict is what is compared)
                    if *n > 65535 && (boxed_ok || unparsed_ok) {
                        c.violation(&format!("rdata-direct:accepts-beyond-65535:{}", if boxed_ok { "BoxedRecordData" } else { "UnparsedRecordData" }), &format!("{} octets of TYPE{} record data are accepted by the new container (boxed {}, unparsed {}); the established codec refuses them, no record can carry them", n, t, boxed_ok, unparsed_ok), c.replay_of(fam, idx, ex));
                    } else if *n <= 65535 && old_ok && (t == 65280 || t == 4242 || t == 0) && !(boxed_ok && unparsed_ok) {
                        c.violation("rdata-direct:refuses-opaque-data", &format!("{} octets of opaque TYPE{} record data are refused by the new container (boxed {}, unparsed {})", n, t, boxed_ok, unparsed_ok), c.replay_of(fam, idx, ex));
                    } else if let Some((b, rt, same, built)) = held {
                        if b != bytes || rt != t || !same || built.as_deref() != Some(&bytes[..]) {
                            c.violation("rdata-direct:held-differently", &format!("BoxedRecordData given {} octets of TYPE{} holds {} octets of TYPE{} (clone equal: {}, builds {:?} octets)", n, t, b.len(), rt, same, built.map(|x| x.len())), c.replay_of(fam, idx, ex));
                        } else {
                            c.count("rdata_direct_held_unchanged", 1);
                        }
                    }
                    if *n > 65535 && !boxed_ok && !unparsed_ok {
                        c.count("rdata_direct_oversize_refused", 1);
                    }
                }
            }
        }
    }
}

pub fn run(c: &mut Ctx) {
    c.families(3);
    if let Some(r) = c.replay.clone() {
        if let Some(h) = r.get("extra").and_then(|e| e.get("opt_rdata_hex")).and_then(|h| h.as_str()) {
            let oct = unhex(h);
            let fam = r.get("family").and_then(|f| f.as_str()).unwrap_or("replay").to_string();
            opts_one(c, &fam, r.get("case").and_then(|x| x.as_u64()).unwrap_or(0), &oct, "replay");
            return;
        }
        if let Some(h) = r.get("extra").and_then(|e| e.get("input_hex")).and_then(|h| h.as_str()) {
            let oct = unhex(h);
            let fam = r.get("family").and_then(|f| f.as_str()).unwrap_or("replay").to_string();
            let idx = r.get("case").and_then(|x| x.as_u64()).unwrap_or(0);
            diff_one(c, &fam, idx, &oct, "replay");
            let offs: Vec<usize> = (12..oct.len().min(80)).collect();
            names_one(c, &fam, idx, &oct, &offs);
            return;
        }
    }
    let miri = c.mode == "miri";
    if c.shard == 0 && !miri {
        rdata_direct(c);
        c.floor("rdata_direct_held_unchanged", 10);
        c.floor("rdata_direct_oversize_refused", 10);
        c.floor("new_builder_started_over_after_truncate", 50);
    }
    let fam = "diff";
    let total = c.total(400_000, 8_000_000);
    for idx in c.cases(fam, total) {
        if c.out_of_time() {
            break;
        }
        let mut rng = c.case_rng(fam, idx);
        let gmsg = gm::valid_message(&mut rng, if miri { 3 } else { 8 }, true);
        let (bytes, kind) = match idx % 6 {
            0 => (gmsg.octets.clone(), "valid"),
            1 if idx % 12 == 1 => (gm::typed_hostile_message(&mut rng), "typed-hostile"),
            1 => (gmsg.octets.clone(), "valid"),
            5 => (gm::random_message(&mut rng), "random"),
            _ => gm::mutate(&mut rng, &gmsg),
        };
        diff_one(c, fam, idx, &bytes, kind);
        let mut offs = gmsg.name_offsets.clone();
        offs.push(12);
        offs.truncate(12);
        names_one(c, fam, idx, &bytes, &offs);
        if c.want_sample() && idx % 37 == 5 {
            c.sample(json!({"family": "diff", "kind": kind, "octets": hex(&bytes[..bytes.len().min(64)]), "len": bytes.len()}));
        }
    }
    let fam = "opts";
    let total = c.total(150_000, 3_000_000);
    for idx in c.cases(fam, total) {
        if c.out_of_time() {
            break;
        }
        let mut rng = c.case_rng(fam, idx);
        let mut rd = g::options(&mut rng);
        let kind = match idx % 4 {
            0 | 1 => "valid",
            2 => {
                // one more option whose length sits on a boundary for its code
                let code = *rng.pick(&[10u16, 10, 10, 15, 8, 11]);
                let l = *rng.pick(&[0usize, 1, 2, 3, 7, 8, 9, 15, 16, 17, 24, 31, 32, 39, 40, 41, 48]);
                let at_front = rng.bool();
                let mut o = code.to_be_bytes().to_vec();
                o.extend_from_slice(&(l as u16).to_be_bytes());
                o.extend(rng.bytes(l));
                if at_front {
                    o.extend_from_slice(&rd);
                    rd = o;
                } else {
                    rd.extend_from_slice(&o);
                }
                "boundary-length"
            }
            _ => {
                if !rd.is_empty() {
                    match rng.below(4) {
                        0 => {
                            let p = rng.below(rd.len());
                            rd[p] = rng.u8();
                        }
                        1 => {
                            let p = rng.below(rd.len() + 1);
                            rd.truncate(p);
                        }
                        2 => rd.extend(rng.bytes(rng.clone().range(1, 5))),
                        _ => {
                            let p = rng.below(rd.len());
                            rd[p] ^= 1 << rng.below(8);
                        }
                    }
                }
                "mutated"
            }
        };
        opts_one(c, fam, idx, &rd, kind);
    }
    let fam = "build";
    let total = c.total(60_000, 1_200_000);
    for idx in c.cases(fam, total) {
        if c.out_of_time() {
            break;
        }
        let mut rng = c.case_rng(fam, idx);
        build_one(c, fam, idx, &mut rng);
    }
    if !c.replaying() && !miri {
        c.floor("new_routes_compared", 1000);
        c.floor("edns_records_with_distinct_rcode_and_version", 10);
        c.floor("both_accept", 1000);
        c.floor("both_reject", 100);
        c.floor("names_both_accept", 1000);
        c.floor("build_scripts", 100);
        c.floor("new_messages_beyond_16384", 10);
        c.floor("new-built_pointers", 100);
        c.floor("new_failed_pushes", 10);
        c.floor("build_scripts_with_many_names", 100);
        c.floor("opts_sequences_both_accept", 1000);
        c.floor("opts_typed_both_interpret", 100);
        c.floor("opts_typed_both_reject", 100);
        c.floor("opts_cookie_40_octets", 10);
    }
}
