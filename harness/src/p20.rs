//! C20 — the client cache serves only what upstream said, aged, and never stale.
use crate::ctx::{self, hex, Ctx};
use crate::refimpl::wire as w;
use crate::rng::Rng;
use bytes::Bytes;
use domain::base::iana::Rtype;
use domain::base::message::Message;
use domain::base::message_builder::MessageBuilder;
use domain::base::name::Name;
use domain::net::client::cache;
use domain::net::client::request::{ComposeRequest, Error as ClientError, GetResponse, RequestMessage, SendRequest};
use serde_json::json;
use std::future::Future;
use std::pin::Pin;
use std::sync::{Arc, Mutex};
use std::time::Duration;

const T_A: u16 = 1;
const T_NS: u16 = 2;
const T_SOA: u16 = 6;
const T_TXT: u16 = 16;
const T_OPT: u16 = 41;
const T_RRSIG: u16 = 46;
const T_NSEC: u16 = 47;
const T_NSEC3: u16 = 50;

#[derive(Clone, Debug)]
struct Seen {
    /// virtual milliseconds since the start of the case
    at_ms: u64,
    qname: Vec<u8>,
    qtype: u16,
    rd: bool,
    cd: bool,
    ad: bool,
    dnssec_ok: bool,
    /// what was returned: wire message or a transport failure
    response: Option<Vec<u8>>,
    kind: &'static str,
}

#[derive(Clone)]
struct Up {
    log: Arc<Mutex<Vec<Seen>>>,
    start: tokio::time::Instant,
    /// per (name index): what kind of answer this name gives, and TTLs
    plan: Arc<Vec<(&'static str, u32, u32)>>,
    names: Arc<Vec<Vec<u8>>>,
    /// read the request the way the stream transports serialise it (append_message) instead of to_message()
    via_append: bool,
}

#[derive(Debug)]
struct Pending(Option<Result<Message<Bytes>, ClientError>>);
impl GetResponse for Pending {
    fn get_response(&mut self) -> Pin<Box<dyn Future<Output = Result<Message<Bytes>, ClientError>> + Send + Sync + '_>> {
        let r = self.0.take().unwrap_or(Err(ClientError::ConnectionClosed));
        Box::pin(std::future::ready(r))
    }
}

fn soa_rdata(serial: u32, minimum: u32) -> Vec<u8> {
    let mut v = b"\x02ns\x04test\x00\x04host\x04test\x00".to_vec();
    v.extend_from_slice(&serial.to_be_bytes());
    for x in [7200u32, 3600, 1209600, minimum] {
        v.extend_from_slice(&x.to_be_bytes());
    }
    v
}

fn rrsig_rdata(covered: u16, marker: u32) -> Vec<u8> {
    let mut v = covered.to_be_bytes().to_vec();
    v.extend_from_slice(&[13, 2, 0, 0, 1, 0, 0x70, 0, 0, 0, 0x60, 0, 0, 0, 0x12, 0x34]);
    v.extend_from_slice(b"\x04test\x00");
    v.extend_from_slice(&marker.to_be_bytes());
    v.extend_from_slice(&[0xab; 28]);
    v
}

impl SendRequest<RequestMessage<Vec<u8>>> for Up {
    fn send_request(&self, req: RequestMessage<Vec<u8>>) -> Box<dyn GetResponse + Send + Sync> {
        let msg = if self.via_append {
            match req.append_message(Vec::new()) {
                Ok(ab) => ab.into_message(),
                Err(_) => return Box::new(Pending(None)),
            }
        } else {
            let Ok(m) = req.to_message() else { return Box::new(Pending(None)) };
            m
        };
        let Ok(q) = msg.sole_question() else { return Box::new(Pending(None)) };
        use domain::base::name::ToName;
        let qname = q.qname().to_vec().as_slice().to_vec();
        let qtype = q.qtype().to_int();
        let h = msg.header();
        let dnssec_ok = msg.opt().map(|o| o.dnssec_ok()).unwrap_or(false);
        let mut log = self.log.lock().unwrap();
        let marker = log.len() as u32 + 1;
        let idx = self.names.iter().position(|n| w::lower(n) == w::lower(&qname)).unwrap_or(0);
        let (kind, ttl1, ttl2) = self.plan[idx];
        let mut seen = Seen { at_ms: self.start.elapsed().as_millis() as u64, qname: qname.clone(), qtype, rd: h.rd(), cd: h.cd(), ad: h.ad(), dnssec_ok, response: None, kind };
        if kind == "transport-failure" {
            log.push(seen);
            return Box::new(Pending(Some(Err(ClientError::ConnectionClosed))));
        }
        // flags: a validating resolver sets AD when asked to (AD or DO) and CD is clear
        let mut flags: u16 = 0x8080 | if h.rd() { 0x0100 } else { 0 } | if h.cd() { 0x0010 } else { 0 };
        if (h.ad() || dnssec_ok) && !h.cd() {
            flags |= 0x0020;
        }
        if matches!(kind, "positive" | "nodata" | "nxdomain" | "cname-nodata" | "cname-nxdomain" | "cname-positive") && marker % 3 == 0 {
            flags |= 0x0400; // AA, as an authoritative server would
        }
        let mut answer: Vec<(Vec<u8>, u16, u32, Vec<u8>)> = vec![];
        let mut authority: Vec<(Vec<u8>, u16, u32, Vec<u8>)> = vec![];
        let mut additional: Vec<(Vec<u8>, u16, u32, Vec<u8>)> = vec![];
        let mk = |t: u16| -> Vec<u8> {
            match t {
                T_A => vec![10, (marker >> 16) as u8, (marker >> 8) as u8, marker as u8],
                _ => {
                    let s = format!("m{}", marker);
                    let mut v = vec![s.len() as u8];
                    v.extend_from_slice(s.as_bytes());
                    v
                }
            }
        };
        let mut rcode = 0u16;
        let mut ext_rcode = 0u8;
        match kind {
            "positive" => {
                answer.push((qname.clone(), qtype, ttl1, mk(qtype)));
                answer.push((qname.clone(), qtype, ttl1, {
                    let mut d = mk(qtype);
                    let l = d.len();
                    d[l - 1] ^= 0x80;
                    d
                }));
                if dnssec_ok {
                    answer.push((qname.clone(), T_RRSIG, ttl1, rrsig_rdata(qtype, marker)));
                }
                authority.push((b"\x04test\x00".to_vec(), T_NS, ttl2, b"\x02ns\x04test\x00".to_vec()));
                additional.push((b"\x02ns\x04test\x00".to_vec(), T_A, ttl2.saturating_add(7), vec![192, 0, 2, 1]));
                if dnssec_ok {
                    // signatures also travel in the additional section
                    additional.push((b"\x02ns\x04test\x00".to_vec(), T_RRSIG, ttl2.saturating_add(7), rrsig_rdata(T_A, marker)));
                    authority.push((b"\x04test\x00".to_vec(), T_RRSIG, ttl2, rrsig_rdata(T_NS, marker)));
                }
            }
            "nodata" | "nxdomain" => {
                if kind == "nxdomain" {
                    rcode = 3;
                }
                if marker % 3 != 1 {
                    // name servers listed ahead of the SOA: still a negative answer, not a referral
                    authority.push((b"\x04test\x00".to_vec(), T_NS, ttl1.saturating_add(100), b"\x02ns\x04test\x00".to_vec()));
                    authority.push((b"\x04test\x00".to_vec(), T_NS, ttl1.saturating_add(100), b"\x03ns2\x04test\x00".to_vec()));
                }
                authority.push((b"\x04test\x00".to_vec(), T_SOA, ttl1, soa_rdata(marker, ttl2)));
                if dnssec_ok {
                    authority.push((b"\x04test\x00".to_vec(), T_RRSIG, ttl1, rrsig_rdata(T_SOA, marker)));
                    let mut n = b"\x01~\x04test\x00".to_vec();
                    n.extend_from_slice(&[0, 1, 0x40]);
                    authority.push((qname.clone(), T_NSEC, ttl1, n));
                    authority.push((qname.clone(), T_RRSIG, ttl1, rrsig_rdata(T_NSEC, marker)));
                    if marker % 2 == 0 {
                        let mut n3 = vec![1, 0, 0, 1, 0, 20];
                        n3.extend_from_slice(&[0x11; 20]);
                        n3.extend_from_slice(&[0, 1, 0x40]);
                        let mut o = vec![32];
                        o.extend_from_slice(&[b'0'; 32]);
                        o.extend_from_slice(b"\x04test\x00");
                        authority.push((o, T_NSEC3, ttl1, n3));
                    }
                }
            }
            "cname-nodata" | "cname-nxdomain" | "cname-positive" => {
                // the name is an alias: the answer section holds the CNAME and, if the target has
                // such data, the target's records; otherwise the negative answer is about the target
                // (RFC 2308 2.1, 2.2): still NODATA / NXDOMAIN, bounded like one
                let target = b"\x06target\x04test\x00".to_vec();
                let cttl = ttl1.saturating_add(if marker % 2 == 0 { 40 } else { 0 });
                answer.push((qname.clone(), 5, cttl, target.clone()));
                if dnssec_ok {
                    // (an RRSIG has the TTL of the RRset it covers, RFC 4034 3)
                    answer.push((qname.clone(), T_RRSIG, cttl, rrsig_rdata(5, marker)));
                }
                if kind == "cname-positive" {
                    answer.push((target.clone(), qtype, ttl1.saturating_add(3), mk(qtype)));
                } else {
                    if kind == "cname-nxdomain" {
                        rcode = 3;
                    }
                    authority.push((b"\x04test\x00".to_vec(), T_SOA, ttl1, soa_rdata(marker, ttl2.max(ttl1))));
                    if dnssec_ok {
                        authority.push((b"\x04test\x00".to_vec(), T_RRSIG, ttl1, rrsig_rdata(T_SOA, marker)));
                    }
                }
            }
            "delegation" => {
                authority.push((qname.clone(), T_NS, ttl1, {
                    let mut v = vec![2, b'n', b's'];
                    v.extend_from_slice(&qname);
                    v
                }));
                authority.push((qname.clone(), T_TXT, ttl1, mk(T_TXT)));
                additional.push((
                    {
                        let mut v = vec![2, b'n', b's'];
                        v.extend_from_slice(&qname);
                        v
                    },
                    T_A,
                    ttl2,
                    vec![192, 0, 2, 2],
                ));
            }
            "servfail" => {
                rcode = 2;
                additional.push((b"\x01m\x00".to_vec(), T_TXT, ttl1, mk(T_TXT)));
            }
            "refused" => {
                rcode = 5;
                additional.push((b"\x01m\x00".to_vec(), T_TXT, ttl1, mk(T_TXT)));
            }
            "ext-error" => {
                // an error whose code does not fit the header: the upper bits travel in the OPT record (BADVERS 16, 19 ...).
                // The four bits in the header then read 0 or 3, and the message may well carry records
                rcode = if marker % 2 == 0 { 0 } else { 3 };
                ext_rcode = 1;
                match marker % 3 {
                    0 => answer.push((qname.clone(), qtype, ttl1.max(60), mk(qtype))),
                    1 => authority.push((b"\x04test\x00".to_vec(), T_SOA, ttl1.max(60), soa_rdata(marker, ttl2.max(60)))),
                    _ => additional.push((b"\x01m\x00".to_vec(), T_TXT, ttl1, mk(T_TXT))),
                }
            }
            "truncated" => {
                flags |= 0x0200;
                answer.push((qname.clone(), qtype, ttl1, mk(qtype)));
            }
            "weird" => {
                additional.push((b"\x01m\x00".to_vec(), T_TXT, ttl1, mk(T_TXT)));
            }
            _ => {}
        }
        let with_opt = dnssec_ok || msg.opt().is_some() || ext_rcode != 0;
        let mut m = w::header(h.id(), flags | rcode, [1, answer.len() as u16, authority.len() as u16, additional.len() as u16 + with_opt as u16]);
        m.extend_from_slice(&qname);
        m.extend_from_slice(&qtype.to_be_bytes());
        m.extend_from_slice(&1u16.to_be_bytes());
        for (o, t, ttl, rd) in answer.iter().chain(authority.iter()).chain(additional.iter()) {
            m.extend(w::compose_record(o, *t, 1, *ttl, rd));
        }
        if with_opt {
            m.extend_from_slice(&[0, 0, 41, 4, 208, ext_rcode, 0, if dnssec_ok { 0x80 } else { 0 }, 0, 0, 0]);
        }
        seen.response = Some(m.clone());
        log.push(seen);
        match Message::from_octets(Bytes::from(m)) {
            Ok(m) => Box::new(Pending(Some(Ok(m)))),
            Err(_) => Box::new(Pending(None)),
        }
    }
}

#[derive(Clone, Debug)]
struct Query {
    name: usize,
    qtype: u16,
    rd: bool,
    cd: bool,
    ad: bool,
    dnssec_ok: bool,
    case_flip: bool,
    /// the request is made from a message that already carries an OPT record (a forwarder passing a client's query on) with
    /// this DO bit, and no EDNS setter is called: RequestMessage documents that such a record is dropped, EDNS comes from the setters only
    raw_opt: Option<bool>,
}

fn mk_query(q: &Query, names: &[Vec<u8>], id: u16) -> RequestMessage<Vec<u8>> {
    let mut n = names[q.name].clone();
    if q.case_flip {
        for b in n.iter_mut() {
            if b.is_ascii_lowercase() {
                *b = b.to_ascii_uppercase();
            }
        }
    }
    let mut mb = MessageBuilder::new_vec();
    mb.header_mut().set_id(id);
    mb.header_mut().set_rd(q.rd);
    mb.header_mut().set_cd(q.cd);
    mb.header_mut().set_ad(q.ad);
    let mut qb = mb.question();
    qb.push((Name::<Vec<u8>>::from_octets(n).unwrap(), Rtype::from_int(q.qtype))).unwrap();
    if let Some(d) = q.raw_opt {
        let mut ab = qb.additional();
        ab.opt(|o| {
            o.set_udp_payload_size(1232);
            o.set_dnssec_ok(d);
            Ok(())
        })
        .unwrap();
        return RequestMessage::new(ab.into_message()).unwrap();
    }
    let mut r = RequestMessage::new(qb.into_message()).unwrap();
    if q.dnssec_ok {
        r.set_dnssec_ok(true);
    }
    r
}

/// records of a message except OPT: (section, owner lower, type, ttl, rdata)
fn records(m: &[u8]) -> Option<Vec<(u8, Vec<u8>, u16, u32, Vec<u8>)>> {
    let pm = w::parse_message(m).ok()?;
    Some(pm.records.iter().filter(|r| r.rtype != T_OPT).map(|r| (r.section, w::lower(&r.owner), r.rtype, r.ttl, m[r.rdata_start..r.rdata_start + r.raw_rdlen].to_vec())).collect())
}

fn marker_of(m: &[u8]) -> Option<u32> {
    let pm = w::parse_message(m).ok()?;
    for r in &pm.records {
        let rd = r.rdata.as_ref()?;
        match r.rtype {
            T_A if rd.len() == 4 && rd[0] == 10 => return Some(((rd[1] as u32) << 16 | (rd[2] as u32) << 8 | rd[3] as u32) & 0x7fffff),
            T_TXT if rd.len() > 2 && rd[1] == b'm' => return std::str::from_utf8(&rd[2..]).ok()?.parse().ok(),
            T_SOA => return Some(u32::from_be_bytes(rd[rd.len() - 20..rd.len() - 16].try_into().ok()?)),
            _ => {}
        }
    }
    None
}

fn one_case(c: &mut Ctx, fam: &str, idx: u64, threads: bool) {
    let mut rng = c.case_rng(fam, idx);
    let kinds: [&'static str; 12] = ["positive", "positive", "nodata", "nxdomain", "delegation", "servfail", "truncated", "transport-failure", "weird", "cname-nodata", "cname-nxdomain", "cname-positive"];
    let nnames = 4;
    let names: Vec<Vec<u8>> = (0..nnames)
        .map(|i| {
            let l = format!("n{}x{}", i, idx);
            let mut v = vec![l.len() as u8];
            v.extend_from_slice(l.as_bytes());
            v.extend_from_slice(b"\x04test\x00");
            v
        })
        .collect();
    let plan: Vec<(&'static str, u32, u32)> = (0..nnames)
        .map(|_| {
            let k = *rng.pick(&kinds);
            let k = if k == "servfail" && rng.bool() { if rng.bool() { "refused" } else { "ext-error" } } else { k };
            let t1 = *rng.pick(&[0u32, 1, 2, 5, 30, 59, 60, 61, 300, 3600, 86400, 1_000_000]);
            let t2 = *rng.pick(&[0u32, 1, 3, 10, 45, 60, 600, 7200, 100_000]);
            (k, t1, t2)
        })
        .collect();
    // configuration
    let max_validity = *rng.pick(&[60u64, 61, 100, 3600, 604800]);
    let nx = *rng.pick(&[60u64, 90, 3600]);
    let nd = *rng.pick(&[60u64, 75, 3600]);
    let misc = *rng.pick(&[1u64, 5, 30, 300]);
    let tf = *rng.pick(&[1u64, 7, 30, 300]);
    let deleg = *rng.pick(&[60u64, 1000, 1_000_000]);
    let cache_trunc = rng.chance(1, 3);
    let max_entries = *rng.pick(&[1u64, 2, 5, 1000]);
    let nq = rng.range(8, 60);
    let ex = json!({"plan": plan.iter().map(|p| format!("{} ttl {} / {}", p.0, p.1, p.2)).collect::<Vec<_>>(), "max_validity": max_validity, "max_nxdomain": nx, "max_nodata": nd, "misc_error": misc, "transport_failure": tf, "max_delegation": deleg, "cache_truncated": cache_trunc, "max_entries": max_entries});
    // on real threads: a multi-thread runtime, the real clock (no time passes between queries but what they take), six
    // tasks querying at once; the oracle then goes by the markers alone
    let rt = if threads {
        tokio::runtime::Builder::new_multi_thread().worker_threads(4).enable_all().build().unwrap()
    } else {
        tokio::runtime::Builder::new_current_thread().enable_all().start_paused(true).build().unwrap()
    };
    let log: Arc<Mutex<Vec<Seen>>> = Arc::new(Mutex::new(vec![]));
    let log2 = log.clone();
    let lazy = Arc::new(std::sync::atomic::AtomicU64::new(0));
    let lazy2 = lazy.clone();
    let names2 = Arc::new(names.clone());
    let plan2 = Arc::new(plan.clone());
    let mut rng2 = rng.fork();
    let via_append = rng.bool();
    // (query, time asked in ms, upstream log length before and after, result)
    // (query, time asked, upstream log length before and after, result, time answered)
    type Row = (Query, u64, usize, usize, Result<Vec<u8>, String>, u64);
    let res = ctx::catch(|| {
        rt.block_on(async move {
            let start = tokio::time::Instant::now();
            let up = Up { log: log2.clone(), start, plan: plan2, names: names2.clone(), via_append };
            let mut cfg = cache::Config::new();
            cfg.set_max_validity(Duration::from_secs(max_validity));
            cfg.set_max_nxdomain_validity(Duration::from_secs(nx));
            cfg.set_max_nodata_validity(Duration::from_secs(nd));
            cfg.set_misc_error_duration(Duration::from_secs(misc));
            cfg.set_transport_failure_duration(Duration::from_secs(tf));
            cfg.set_max_delegation_validity(Duration::from_secs(deleg));
            cfg.set_cache_truncated(cache_trunc);
            cfg.set_max_cache_entries(max_entries);
            let conn = cache::Connection::with_config(up, cfg);
            let mut rows: Vec<Row> = Vec::new();
            if threads {
                let conn = Arc::new(conn);
                let mut hs = Vec::new();
                for t in 0..6u64 {
                    let conn = conn.clone();
                    let names2 = names2.clone();
                    let mut rng3 = Rng::new(&[rng2.u64(), t]);
                    hs.push(tokio::spawn(async move {
                        let mut mine: Vec<Row> = Vec::new();
                        for _ in 0..nq.min(20) {
                            if rng3.chance(1, 3) {
                                tokio::task::yield_now().await;
                            }
                            let q = Query { name: rng3.below(nnames), qtype: *rng3.pick(&[T_A, T_A, T_TXT]), rd: rng3.bool(), cd: rng3.chance(1, 4), ad: rng3.chance(1, 3), dnssec_ok: rng3.chance(1, 3), case_flip: rng3.chance(1, 5), raw_opt: None };
                            let at = start.elapsed().as_millis() as u64;
                            let mut gr = conn.send_request(mk_query(&q, &names2, rng3.u16()));
                            let r = gr.get_response().await;
                            let done = start.elapsed().as_millis() as u64;
                            mine.push((q, at, 0, 0, r.map(|m| m.as_slice().to_vec()).map_err(|e| format!("{}", e)), done));
                        }
                        mine
                    }));
                }
                for h in hs {
                    if let Ok(v) = h.await {
                        rows.extend(v);
                    }
                }
                return rows;
            }
            for _ in 0..nq {
                // move the clock: often not at all, often around a TTL boundary
                let adv_ms: u64 = match rng2.below(14) {
                    0 | 1 | 8 | 9 | 10 => 0,
                    11 | 12 | 13 => rng2.range(0, 1500) as u64,
                    2 => rng2.range(1, 999) as u64,
                    3 => 1000 * *rng2.pick(&[1u64, 2, 5, 29, 30, 31, 59, 60, 61, 75, 90, 100, 299, 300, 301]),
                    4 => 1000 * *rng2.pick(&[1u64, 2, 5, 29, 30, 31, 59, 60, 61]) - rng2.range(1, 999) as u64,
                    5 => 1000 * rng2.range(1, 4000) as u64,
                    _ => rng2.range(0, 3000) as u64,
                };
                if adv_ms > 0 {
                    tokio::time::advance(Duration::from_millis(adv_ms)).await;
                }
                let mut q = Query { name: rng2.below(nnames), qtype: *rng2.pick(&[T_A, T_A, T_TXT]), rd: rng2.bool(), cd: rng2.chance(1, 4), ad: rng2.chance(1, 3), dnssec_ok: rng2.chance(1, 3), case_flip: rng2.chance(1, 5), raw_opt: None };
                if rng2.chance(1, 6) {
                    // (what the record in the base message says does not count: the request asks for DNSSEC records only through the setter)
                    q.raw_opt = Some(rng2.chance(2, 3));
                    q.dnssec_ok = false;
                }
                let before = log2.lock().unwrap().len();
                let mut gr = conn.send_request(mk_query(&q, &names2, rng2.u16()));
                // a request object made now and asked for its response later (a batch made first and collected afterwards):
                // what counts is the moment the response is handed out
                if rng2.chance(1, 5) {
                    let wait = match rng2.below(4) {
                        0 => rng2.range(1, 999) as u64,
                        1 => 1000 * *rng2.pick(&[1u64, 2, 5, 30, 60, 61, 300]),
                        _ => rng2.range(1000, 90_000) as u64,
                    };
                    tokio::time::advance(Duration::from_millis(wait)).await;
                    lazy2.fetch_add(1, std::sync::atomic::Ordering::Relaxed);
                }
                let at = start.elapsed().as_millis() as u64;
                let r = gr.get_response().await;
                let after = log2.lock().unwrap().len();
                rows.push((q, at, before, after, r.map(|m| m.as_slice().to_vec()).map_err(|e| format!("{}", e)), at));
            }
            rows
        })
    });
    drop(rt);
    let rows = match res {
        Ok(r) => r,
        Err(pi) => {
            c.violation(&format!("panic:{}", pi.site()), &format!("panic in the client cache: {} at {}:{}", pi.msg, pi.file, pi.line), c.replay_of(fam, idx, ex));
            return;
        }
    };
    let log = log.lock().unwrap().clone();
    c.count("responses_collected_some_time_after_the_request_was_made", lazy.load(std::sync::atomic::Ordering::Relaxed));
    let mut last_failure: Vec<Option<u64>> = vec![None; nnames];
    for (qi, (q, at, before, after, result, done)) in rows.iter().enumerate() {
        let rp = |c: &Ctx, more: serde_json::Value| c.replay_of(fam, idx, json!({"ctx": ex, "query": qi, "more": more}));
        let from_upstream = after > before && !threads;
        if threads && result.is_err() {
            // (which failure was passed on and which was remembered cannot be told apart without an order of events)
            c.count("threads_failures", 1);
            continue;
        }
        let dflag = format!("{}{}{}{}", if q.rd { "R" } else { "r" }, if q.cd { "C" } else { "c" }, if q.ad { "A" } else { "a" }, if q.dnssec_ok { "D" } else { "d" });
        let kind = plan[q.name].0;
        match result {
            Err(e) => {
                if from_upstream {
                    if kind == "transport-failure" {
                        last_failure[q.name] = Some(*at);
                    }
                    c.count("upstream_failures_passed_on", 1);
                    continue;
                }
                // a remembered failure
                if kind != "transport-failure" {
                    c.violation("error-from-nowhere", &format!("query {} ({}) failed with '{}' although upstream was not asked and never failed for this name", qi, dflag, e), rp(c, json!({})));
                    return;
                }
                // some earlier transport failure for the same question must be recent enough
                let recent = log.iter().filter(|s| s.kind == "transport-failure" && w::lower(&s.qname) == w::lower(&names[q.name]) && s.qtype == q.qtype && s.at_ms <= *at).map(|s| at - s.at_ms).min();
                match recent {
                    Some(age) if age <= tf * 1000 => {
                        c.count("cached_failures_served", 1);
                        c.eval(&("failure", dflag.clone(), (age / 1000).min(40)));
                    }
                    other => {
                        c.violation("stale-failure", &format!("a transport failure is still reported from the cache {:?} ms after it happened; transport_failure_duration is {} s", other, tf), rp(c, json!({})));
                        return;
                    }
                }
            }
            Ok(m) => {
                let Ok(pm) = w::parse_message(m) else {
                    c.violation("unparsable-response", "the cache returned a message that cannot be parsed", rp(c, json!({"message": hex(m)})));
                    return;
                };
                // the question is the requester's
                if pm.questions.len() != 1 || w::lower(&pm.questions[0].name) != w::lower(&names[q.name]) || pm.questions[0].qtype != q.qtype {
                    c.violation("other-question", "the response's question is not the one asked", rp(c, json!({"message": hex(m)})));
                    return;
                }
                if from_upstream {
                    // what upstream said for this very query comes back as it is
                    let u = &log[after - 1];
                    if u.response.as_ref().map(|x| records(x)) != Some(records(m)) {
                        c.violation("fresh-response-altered", "the response to a query that was sent upstream differs from what upstream answered", rp(c, json!({"message": hex(m), "upstream": u.response.as_ref().map(|x| hex(x))})));
                        return;
                    }
                    c.count("answers_from_upstream", 1);
                    continue;
                }
                // ---- served from the cache
                let Some(k) = marker_of(m) else {
                    c.violation("cached-response-unattributable", "a response served from the cache carries no marker of any upstream response", rp(c, json!({"message": hex(m)})));
                    return;
                };
                let Some(u) = log.get(k as usize - 1).filter(|u| u.response.is_some()) else {
                    c.violation("cached-response-unattributable", &format!("marker {} names no upstream response", k), rp(c, json!({"message": hex(m)})));
                    return;
                };
                let um = u.response.as_ref().unwrap();
                if (u.at_ms > *at && !threads) || u.at_ms > *done || w::lower(&u.qname) != w::lower(&names[q.name]) || u.qtype != q.qtype {
                    c.violation("cached-response-for-other-question", &format!("the cached response served for {} TYPE{} was upstream's answer to {} TYPE{}", w::name_text(&names[q.name]), q.qtype, w::name_text(&u.qname), u.qtype), rp(c, json!({})));
                    return;
                }
                // flag compatibility
                let u_adlike = u.ad || u.dnssec_ok;
                let q_adlike = q.ad || q.dnssec_ok;
                let compat = (!q.rd || u.rd) && q.cd == u.cd && (!q.dnssec_ok || u.dnssec_ok) && (!q_adlike || u_adlike);
                if !compat {
                    let uflag = format!("{}{}{}{}", if u.rd { "R" } else { "r" }, if u.cd { "C" } else { "c" }, if u.ad { "A" } else { "a" }, if u.dnssec_ok { "D" } else { "d" });
                    c.violation(&format!("incompatible-flags:{}-served-from-{}", dflag, uflag), &format!("a query with flags {} (R=RD C=CD A=AD D=DO, capital = set) was answered from the cache with upstream's response to a query with flags {}", dflag, uflag), rp(c, json!({})));
                    return;
                }
                // age and freshness
                // (on real threads the response was put together somewhere between asking and answering)
                let age_ms = at.saturating_sub(u.at_ms);
                let age_done_ms = done.saturating_sub(u.at_ms);
                // on real threads: this may be the upstream's answer to this very query, passed on as it is
                let maybe_fresh = threads && u.at_ms >= *at && u.at_ms <= *done && (u.rd, u.cd, u.ad, u.dnssec_ok) == (q.rd, q.cd, q.ad, q.dnssec_ok);
                let urecs = records(um).unwrap_or_default();
                let min_ttl = urecs.iter().map(|r| r.3).min().unwrap_or(0) as u64;
                let upm = w::parse_message(um).unwrap();
                // (the whole code: the header's four bits and the eight in the OPT record, RFC 6891 6.1.3)
                let rcode = (upm.flags & 0xf) | upm.records.iter().find(|r| r.rtype == T_OPT).map(|r| ((r.ttl >> 24) as u16) << 4).unwrap_or(0);
                let has_answer = urecs.iter().any(|r| r.0 == 1 && r.2 == q.qtype);
                let has_soa = urecs.iter().any(|r| r.0 == 2 && r.2 == T_SOA);
                let has_ns = urecs.iter().any(|r| r.0 == 2 && r.2 == T_NS);
                let mut bound = max_validity.min(min_ttl);
                let class = if rcode == 3 {
                    bound = bound.min(nx);
                    "nxdomain"
                } else if rcode != 0 {
                    bound = bound.min(misc);
                    "error"
                } else if has_answer {
                    "answer"
                } else if has_soa {
                    bound = bound.min(nd);
                    "nodata"
                } else if has_ns {
                    bound = bound.min(deleg);
                    "delegation"
                } else {
                    bound = 0;
                    "weird"
                };
                if upm.flags & 0x0200 != 0 && !cache_trunc && !maybe_fresh {
                    c.violation("truncated-response-cached", "a truncated response was served from the cache although cache_truncated is off", rp(c, json!({})));
                    return;
                }
                if age_ms > bound * 1000 {
                    c.violation(&format!("stale:{}", class), &format!("a cached {} response is served {} ms after upstream gave it; its smallest TTL is {} s and the configured bound for it {} s", class, age_ms, min_ttl, bound), rp(c, json!({"message": hex(m)})));
                    return;
                }
                // records: upstream's, minus DNSSEC records if the query did not ask for them, TTLs aged
                let mrecs = records(m).unwrap_or_default();
                let strip = !q.dnssec_ok;
                let want: Vec<_> = urecs.iter().filter(|r| !(strip && matches!(r.2, T_RRSIG | T_NSEC | T_NSEC3))).cloned().collect();
                if !q.dnssec_ok && mrecs.iter().any(|r| matches!(r.2, T_RRSIG | T_NSEC | T_NSEC3)) {
                    c.violation("dnssec-records-exposed", "a query without DO got RRSIG/NSEC/NSEC3 records from the cache", rp(c, json!({"message": hex(m)})));
                    return;
                }
                if !q_adlike && pm.flags & 0x0020 != 0 {
                    c.violation("ad-bit-exposed", "a query with neither AD nor DO got a response with the AD bit from the cache", rp(c, json!({"message": hex(m)})));
                    return;
                }
                if pm.flags & 0x0400 != 0 && !maybe_fresh {
                    c.violation("aa-bit-from-cache", "a response from the cache has the AA bit", rp(c, json!({})));
                    return;
                }
                if (pm.flags & 0x0100 != 0) != q.rd && q.rd {
                    c.violation("rd-bit-lost", "the response from the cache does not echo RD", rp(c, json!({})));
                    return;
                }
                if mrecs.len() != want.len() || mrecs.iter().zip(&want).any(|(a, b)| a.0 != b.0 || a.1 != b.1 || a.2 != b.2) {
                    c.violation("cached-records-differ", "the records served from the cache are not the ones upstream returned", rp(c, json!({"message": hex(m), "upstream": hex(um)})));
                    return;
                }
                let age_lo = (age_ms / 1000) as u32;
                let age_hi = age_done_ms.max(age_ms).div_ceil(1000) as u32;
                for (a, b) in mrecs.iter().zip(&want) {
                    // rdata: names may have been re-compressed, compare what the reference parser sees
                    let lo = b.3.saturating_sub(age_hi);
                    let hi = b.3.saturating_sub(age_lo);
                    if a.3 < lo || a.3 > hi {
                        let sig = if a.3 > b.3 { "ttl-increased" } else if a.3 > hi { "ttl-not-aged" } else { "ttl-aged-too-much" };
                        c.violation(sig, &format!("a TYPE{} record with TTL {} at upstream is served with TTL {} after {} ms in the cache", b.2, b.3, a.3, age_ms), rp(c, json!({})));
                        return;
                    }
                }
                c.count("answers_from_cache", 1);
                c.count(&format!("cached:{}", class), 1);
                if u.kind.starts_with("cname") {
                    c.count(&format!("cached:{}", u.kind), 1);
                }
                if u.rd != q.rd || u.ad != q.ad || u.dnssec_ok != q.dnssec_ok {
                    c.count("served_across_flag_variants", 1);
                }
                c.eval(&("cache", class, dflag.clone(), u.dnssec_ok, (age_ms / 1000).min(100) / 5, bound.min(100) / 10));
            }
        }
    }
    let _ = last_failure;
    c.count("cases", 1);
    c.count("upstream_requests", log.len() as u64);
    if c.want_sample() && idx % 37 == 0 {
        c.sample(json!({"plan": plan.iter().map(|p| p.0).collect::<Vec<_>>(), "queries": rows.len(), "upstream_requests": log.len()}));
    }
}

pub fn run(c: &mut Ctx) {
    // real threads: all there is to the ThreadSanitizer stage, a few cases elsewhere
    let fam = "threads";
    let total = if c.mode == "tsan" { c.total(64, 640) } else { c.total(160, 8_000) };
    for idx in c.cases(fam, total) {
        if c.out_of_time() {
            break;
        }
        ctx::slot_write(idx, &format!("{}|case", fam), &[]);
        one_case(c, fam, idx, true);
        c.count("threads_cases", 1);
    }
    if c.mode == "tsan" {
        return;
    }
    let fam = "histories";
    let total = c.total(120_000, 4_000_000);
    for idx in c.cases(fam, total) {
        if c.out_of_time() {
            break;
        }
        ctx::slot_write(idx, &format!("{}|case", fam), &[]);
        one_case(c, fam, idx, false);
    }
    if !c.replaying() {
        for k in ["answers_from_cache", "answers_from_upstream", "cached:answer", "cached:nodata", "cached:nxdomain", "cached:error", "cached_failures_served", "served_across_flag_variants", "threads_cases", "cached:cname-nodata", "cached:cname-nxdomain", "cached:cname-positive"] {
            c.floor(k, 5);
        }
    }
    let _ = T_NS;
}
