//! RFC 4648 reference codecs: base16, base32hex (unpadded, as used by DNS),
//! base64 (padded).

const B64: &[u8; 64] = b"ABCDEFGHIJKLMNOPQRSTUVWXYZabcdefghijklmnopqrstuvwxyz0123456789+/";
const B32H: &[u8; 32] = b"0123456789ABCDEFGHIJKLMNOPQRSTUV";
const B16: &[u8; 16] = b"0123456789ABCDEF";

pub fn enc16(x: &[u8]) -> String {
    let mut s = String::new();
    for b in x {
        s.push(B16[(b >> 4) as usize] as char);
        s.push(B16[(b & 15) as usize] as char);
    }
    s
}

/// Generic bit-packing encoder: `bits` per symbol.
fn enc_bits(x: &[u8], alphabet: &[u8], bits: u32) -> String {
    let mut s = String::new();
    let mut acc: u32 = 0;
    let mut n: u32 = 0;
    for &b in x {
        acc = (acc << 8) | b as u32;
        n += 8;
        while n >= bits {
            n -= bits;
            s.push(alphabet[((acc >> n) & ((1 << bits) - 1)) as usize] as char);
        }
    }
    if n > 0 {
        s.push(alphabet[((acc << (bits - n)) & ((1 << bits) - 1)) as usize] as char);
    }
    s
}

pub fn enc32hex(x: &[u8]) -> String {
    enc_bits(x, B32H, 5)
}

pub fn enc64(x: &[u8]) -> String {
    let mut s = enc_bits(x, B64, 6);
    while s.len() % 4 != 0 {
        s.push('=');
    }
    s
}

/// Verdict of the reference decoder.
#[derive(Debug, Clone, PartialEq, Eq)]
pub enum Dec {
    /// well-formed canonical text: must be accepted with exactly these octets
    Ok(Vec<u8>),
    /// text that RFC 4648 lets a decoder either reject or accept (non-zero
    /// trailing bits §3.5, lower-case base32 letters, padded base32): if
    /// accepted the octets must be these
    Tolerated(Vec<u8>),
    /// malformed: must be rejected
    Bad,
}

pub fn dec16(t: &str) -> Dec {
    let mut v = Vec::new();
    let cs: Vec<char> = t.chars().collect();
    if cs.len() % 2 != 0 {
        return Dec::Bad;
    }
    let d = |c: char| -> Option<u8> {
        match c {
            '0'..='9' => Some(c as u8 - b'0'),
            'a'..='f' => Some(c as u8 - b'a' + 10),
            'A'..='F' => Some(c as u8 - b'A' + 10),
            _ => None,
        }
    };
    for p in cs.chunks(2) {
        match (d(p[0]), d(p[1])) {
            (Some(h), Some(l)) => v.push(h << 4 | l),
            _ => return Dec::Bad,
        }
    }
    // RFC 4648 §8 names the upper-case alphabet; hex digits in DNS
    // presentation format are case-insensitive, both must be accepted.
    Dec::Ok(v)
}

fn dec_bits(vals: &[u8], bits: u32) -> (Vec<u8>, bool) {
    let mut out = Vec::new();
    let mut acc: u32 = 0;
    let mut n: u32 = 0;
    for &v in vals {
        acc = (acc << bits) | v as u32;
        n += bits;
        if n >= 8 {
            n -= 8;
            out.push((acc >> n) as u8);
            acc &= (1 << n) - 1;
        }
    }
    (out, acc != 0)
}

pub fn dec32hex(t: &str) -> Dec {
    let mut vals = Vec::new();
    let mut lower = false;
    let cs: Vec<char> = t.chars().collect();
    // optional padding tail (tolerated only)
    let mut end = cs.len();
    while end > 0 && cs[end - 1] == '=' {
        end -= 1;
    }
    let padded = end != cs.len();
    for &c in &cs[..end] {
        let v = match c {
            '0'..='9' => c as u8 - b'0',
            'A'..='V' => c as u8 - b'A' + 10,
            'a'..='v' => {
                lower = true;
                c as u8 - b'a' + 10
            }
            _ => return Dec::Bad,
        };
        vals.push(v);
    }
    match vals.len() % 8 {
        0 | 2 | 4 | 5 | 7 => {}
        _ => return Dec::Bad,
    }
    if padded && cs.len() % 8 != 0 {
        return Dec::Bad;
    }
    let (out, trailing) = dec_bits(&vals, 5);
    if trailing || lower || padded {
        Dec::Tolerated(out)
    } else {
        Dec::Ok(out)
    }
}

pub fn dec64(t: &str) -> Dec {
    let cs: Vec<char> = t.chars().collect();
    if cs.len() % 4 != 0 {
        return Dec::Bad;
    }
    let mut end = cs.len();
    while end > 0 && cs[end - 1] == '=' {
        end -= 1;
    }
    let pad = cs.len() - end;
    if pad > 2 {
        return Dec::Bad;
    }
    let mut vals = Vec::new();
    for &c in &cs[..end] {
        let v = match c {
            'A'..='Z' => c as u8 - b'A',
            'a'..='z' => c as u8 - b'a' + 26,
            '0'..='9' => c as u8 - b'0' + 52,
            '+' => 62,
            '/' => 63,
            _ => return Dec::Bad,
        };
        vals.push(v);
    }
    let (out, trailing) = dec_bits(&vals, 6);
    if trailing {
        Dec::Tolerated(out)
    } else {
        Dec::Ok(out)
    }
}
