//! Independent reference code, written from the RFC texts; shares no code
//! with `domain`.
pub mod wire;
pub mod b64;
#[cfg(feature = "crypto")]
pub mod tsig;
