//! Independent RFC 8945 signer / verifier over raw wire messages. Only the HMAC primitive is
//! shared with the library (ring); what goes into the digest, the record layout and every
//! check are written from the RFC. The primitive itself is cross-checked offline against
//! Python's hmac/hashlib (checkers/tsig_ref.py).
use crate::refimpl::wire as w;

pub const T_TSIG: u16 = 250;

#[derive(Clone, Copy, Debug, PartialEq, Eq)]
pub enum Alg {
    Sha1,
    Sha256,
    Sha384,
    Sha512,
}

impl Alg {
    pub const ALL: [Alg; 4] = [Alg::Sha1, Alg::Sha256, Alg::Sha384, Alg::Sha512];
    pub fn name_wire(self) -> Vec<u8> {
        let l: &[u8] = match self {
            Alg::Sha1 => b"hmac-sha1",
            Alg::Sha256 => b"hmac-sha256",
            Alg::Sha384 => b"hmac-sha384",
            Alg::Sha512 => b"hmac-sha512",
        };
        let mut v = vec![l.len() as u8];
        v.extend_from_slice(l);
        v.push(0);
        v
    }
    pub fn text(self) -> &'static str {
        match self {
            Alg::Sha1 => "hmac-sha1",
            Alg::Sha256 => "hmac-sha256",
            Alg::Sha384 => "hmac-sha384",
            Alg::Sha512 => "hmac-sha512",
        }
    }
    pub fn native_len(self) -> usize {
        match self {
            Alg::Sha1 => 20,
            Alg::Sha256 => 32,
            Alg::Sha384 => 48,
            Alg::Sha512 => 64,
        }
    }
    pub fn from_name_wire(n: &[u8]) -> Option<Alg> {
        let l = w::lower(n);
        Alg::ALL.into_iter().find(|a| a.name_wire() == l)
    }
    fn ring(self) -> ring::hmac::Algorithm {
        match self {
            Alg::Sha1 => ring::hmac::HMAC_SHA1_FOR_LEGACY_USE_ONLY,
            Alg::Sha256 => ring::hmac::HMAC_SHA256,
            Alg::Sha384 => ring::hmac::HMAC_SHA384,
            Alg::Sha512 => ring::hmac::HMAC_SHA512,
        }
    }
}

pub fn hmac(alg: Alg, secret: &[u8], parts: &[&[u8]]) -> Vec<u8> {
    let key = ring::hmac::Key::new(alg.ring(), secret);
    let mut ctx = ring::hmac::Context::with_key(&key);
    for p in parts {
        ctx.update(p);
    }
    ctx.sign().as_ref().to_vec()
}

#[derive(Clone, Debug)]
pub struct RefKey {
    pub alg: Alg,
    pub secret: Vec<u8>,
    /// key name, wire format
    pub name: Vec<u8>,
    pub min_mac_len: usize,
    pub signing_len: usize,
}

/// The TSIG RR of a message, as the reference parser sees it.
#[derive(Clone, Debug, PartialEq, Eq)]
pub struct RefTsig {
    pub owner: Vec<u8>,
    pub class: u16,
    pub ttl: u32,
    pub alg_name: Vec<u8>,
    pub time: u64,
    pub fudge: u16,
    pub mac: Vec<u8>,
    pub orig_id: u16,
    pub error: u16,
    pub other: Vec<u8>,
    /// offset of the RR in the message
    pub start: usize,
}

pub fn time48(t: u64) -> [u8; 6] {
    let b = t.to_be_bytes();
    [b[2], b[3], b[4], b[5], b[6], b[7]]
}

fn parse_tsig_rdata(rd: &[u8]) -> Option<(Vec<u8>, u64, u16, Vec<u8>, u16, u16, Vec<u8>)> {
    // algorithm name: uncompressed
    let mut p = 0;
    loop {
        let l = *rd.get(p)? as usize;
        if l & 0xc0 != 0 {
            return None;
        }
        p += 1 + l;
        if l == 0 {
            break;
        }
        if p > 255 {
            return None;
        }
    }
    let alg = rd[..p].to_vec();
    w::validate_abs_name(&alg).ok()?;
    if rd.len() < p + 10 {
        return None;
    }
    let mut t = [0u8; 8];
    t[2..].copy_from_slice(&rd[p..p + 6]);
    let time = u64::from_be_bytes(t);
    let fudge = u16::from_be_bytes([rd[p + 6], rd[p + 7]]);
    let ml = u16::from_be_bytes([rd[p + 8], rd[p + 9]]) as usize;
    let q = p + 10;
    if rd.len() < q + ml + 6 {
        return None;
    }
    let mac = rd[q..q + ml].to_vec();
    let r = q + ml;
    let orig = u16::from_be_bytes([rd[r], rd[r + 1]]);
    let err = u16::from_be_bytes([rd[r + 2], rd[r + 3]]);
    let ol = u16::from_be_bytes([rd[r + 4], rd[r + 5]]) as usize;
    if rd.len() != r + 6 + ol {
        return None;
    }
    Some((alg, time, fudge, mac, orig, err, rd[r + 6..].to_vec()))
}

#[derive(Clone, Debug, PartialEq, Eq)]
pub enum Found {
    /// the message cannot be parsed, or its TSIG RR is broken, repeated or misplaced
    FormErr,
    /// no TSIG RR in the additional section
    Unsigned,
    Tsig(RefTsig),
}

/// RFC 8945 5.2: locate the TSIG RR (last record of the additional section, unique).
pub fn find(msg: &[u8]) -> Found {
    let Ok(pm) = w::parse_message(msg) else { return Found::FormErr };
    let tsigs: Vec<usize> = pm.records.iter().enumerate().filter(|(_, r)| r.rtype == T_TSIG && r.section == 3).map(|(i, _)| i).collect();
    if tsigs.is_empty() {
        return Found::Unsigned;
    }
    if tsigs.len() > 1 || tsigs[0] != pm.records.len() - 1 {
        return Found::FormErr;
    }
    let r = &pm.records[tsigs[0]];
    let rd = &msg[r.rdata_start..r.rdata_start + r.raw_rdlen];
    match parse_tsig_rdata(rd) {
        Some((alg_name, time, fudge, mac, orig_id, error, other)) => Found::Tsig(RefTsig { owner: r.owner.clone(), class: r.class, ttl: r.ttl, alg_name, time, fudge, mac, orig_id, error, other, start: r.start }),
        None => Found::FormErr,
    }
}

/// The message as it was before the TSIG RR was added: RR cut off, ARCOUNT decremented, original ID.
pub fn stripped(msg: &[u8], t: &RefTsig) -> Vec<u8> {
    let mut m = msg[..t.start].to_vec();
    m[0..2].copy_from_slice(&t.orig_id.to_be_bytes());
    let ar = u16::from_be_bytes([m[10], m[11]]).wrapping_sub(1);
    m[10..12].copy_from_slice(&ar.to_be_bytes());
    m
}

/// TSIG variables, RFC 8945 4.3.3.
pub fn variables(key_name: &[u8], class: u16, ttl: u32, alg_name: &[u8], time: u64, fudge: u16, error: u16, other: &[u8]) -> Vec<u8> {
    let mut v = w::lower(key_name);
    v.extend_from_slice(&class.to_be_bytes());
    v.extend_from_slice(&ttl.to_be_bytes());
    v.extend(w::lower(alg_name));
    v.extend_from_slice(&time48(time));
    v.extend_from_slice(&fudge.to_be_bytes());
    v.extend_from_slice(&error.to_be_bytes());
    v.extend_from_slice(&(other.len() as u16).to_be_bytes());
    v.extend_from_slice(other);
    v
}

pub fn timers(time: u64, fudge: u16) -> Vec<u8> {
    let mut v = time48(time).to_vec();
    v.extend_from_slice(&fudge.to_be_bytes());
    v
}

fn prefixed(mac: &[u8]) -> Vec<u8> {
    let mut v = (mac.len() as u16).to_be_bytes().to_vec();
    v.extend_from_slice(mac);
    v
}

/// What is digested (RFC 8945 4.3).
#[derive(Clone, Debug)]
pub enum Kind<'a> {
    /// a request: message | variables
    Request,
    /// a response, or the first message of a multi-message response: request MAC | message | variables
    Response { request_mac: &'a [u8] },
    /// a later message of a multi-message response: prior MAC | unsigned messages since | message | timers
    Subsequent { prior_mac: &'a [u8], unsigned: &'a [Vec<u8>] },
}

/// Full-length MAC for `msg` (without TSIG RR, with the original ID).
pub fn mac_for(key: &RefKey, kind: &Kind, msg: &[u8], time: u64, fudge: u16, error: u16, other: &[u8]) -> Vec<u8> {
    let vars = variables(&key.name, 255, 0, &key.alg.name_wire(), time, fudge, error, other);
    let tm = timers(time, fudge);
    let mut parts: Vec<Vec<u8>> = Vec::new();
    match kind {
        Kind::Request => {
            parts.push(msg.to_vec());
            parts.push(vars);
        }
        Kind::Response { request_mac } => {
            parts.push(prefixed(request_mac));
            parts.push(msg.to_vec());
            parts.push(vars);
        }
        Kind::Subsequent { prior_mac, unsigned } => {
            parts.push(prefixed(prior_mac));
            for u in unsigned.iter() {
                parts.push(u.clone());
            }
            parts.push(msg.to_vec());
            parts.push(tm);
        }
    }
    let refs: Vec<&[u8]> = parts.iter().map(|p| p.as_slice()).collect();
    hmac(key.alg, &key.secret, &refs)
}

/// Append a TSIG RR to `msg`.
pub fn attach(msg: &[u8], key_name: &[u8], alg_name: &[u8], time: u64, fudge: u16, mac: &[u8], orig_id: u16, error: u16, other: &[u8]) -> Vec<u8> {
    let mut rd = alg_name.to_vec();
    rd.extend_from_slice(&time48(time));
    rd.extend_from_slice(&fudge.to_be_bytes());
    rd.extend_from_slice(&(mac.len() as u16).to_be_bytes());
    rd.extend_from_slice(mac);
    rd.extend_from_slice(&orig_id.to_be_bytes());
    rd.extend_from_slice(&error.to_be_bytes());
    rd.extend_from_slice(&(other.len() as u16).to_be_bytes());
    rd.extend_from_slice(other);
    let mut m = msg.to_vec();
    m.extend(w::compose_record(key_name, T_TSIG, 255, 0, &rd));
    let ar = u16::from_be_bytes([m[10], m[11]]) + 1;
    m[10..12].copy_from_slice(&ar.to_be_bytes());
    m
}

/// Sign `msg` the way an RFC 8945 implementation does; returns (signed message, MAC as sent).
pub fn sign(key: &RefKey, kind: &Kind, msg: &[u8], time: u64, fudge: u16, error: u16, other: &[u8]) -> (Vec<u8>, Vec<u8>) {
    let full = mac_for(key, kind, msg, time, fudge, error, other);
    let mac = full[..key.signing_len].to_vec();
    let id = u16::from_be_bytes([msg[0], msg[1]]);
    (attach(msg, &key.name, &key.alg.name_wire(), time, fudge, &mac, id, error, other), mac)
}

#[derive(Clone, Debug, PartialEq, Eq)]
pub enum RefErr {
    FormErr,
    Unsigned,
    BadKey,
    BadSig,
    BadTrunc,
    BadTime,
}

/// RFC 8945 5.2 / 5.3 verification. Ok: (message as before signing, MAC as received).
pub fn verify(key: &RefKey, kind: &Kind, msg: &[u8], now: u64) -> Result<(Vec<u8>, Vec<u8>), RefErr> {
    let t = match find(msg) {
        Found::FormErr => return Err(RefErr::FormErr),
        Found::Unsigned => return Err(RefErr::Unsigned),
        Found::Tsig(t) => t,
    };
    if t.class != 255 || t.ttl != 0 {
        return Err(RefErr::FormErr);
    }
    // 4.2: other data is empty, or a 48-bit time (BADTIME); anything else cannot be interpreted
    if !(t.other.is_empty() || t.other.len() == 6) {
        return Err(RefErr::FormErr);
    }
    // 5.2.1 key check
    if w::lower(&t.owner) != w::lower(&key.name) || Alg::from_name_wire(&t.alg_name) != Some(key.alg) {
        return Err(RefErr::BadKey);
    }
    // 5.2.2.1 MAC size
    let native = key.alg.native_len();
    if t.mac.len() > native || t.mac.len() < std::cmp::max(10, native / 2) {
        return Err(RefErr::FormErr);
    }
    if t.mac.len() < key.min_mac_len {
        return Err(RefErr::BadTrunc);
    }
    // 5.2.2 MAC check: digest over what the signer saw, with the variables of the received RR
    let m = stripped(msg, &t);
    let vars = variables(&t.owner, t.class, t.ttl, &t.alg_name, t.time, t.fudge, t.error, &t.other);
    let tm = timers(t.time, t.fudge);
    let mut parts: Vec<Vec<u8>> = Vec::new();
    match kind {
        Kind::Request => {
            parts.push(m.clone());
            parts.push(vars);
        }
        Kind::Response { request_mac } => {
            parts.push(prefixed(request_mac));
            parts.push(m.clone());
            parts.push(vars);
        }
        Kind::Subsequent { prior_mac, unsigned } => {
            parts.push(prefixed(prior_mac));
            for u in unsigned.iter() {
                parts.push(u.clone());
            }
            parts.push(m.clone());
            parts.push(tm);
        }
    }
    let refs: Vec<&[u8]> = parts.iter().map(|p| p.as_slice()).collect();
    let full = hmac(key.alg, &key.secret, &refs);
    if full[..t.mac.len()] != t.mac[..] {
        return Err(RefErr::BadSig);
    }
    // 5.2.3 time check
    let lo = t.time.saturating_sub(t.fudge as u64);
    let hi = t.time + t.fudge as u64;
    if now < lo || now > hi {
        return Err(RefErr::BadTime);
    }
    Ok((m, t.mac))
}
