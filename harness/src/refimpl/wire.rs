//! Reference DNS wire walker and table-driven record-data codec.
//!
//! RFC 1035 §3.1/§4.1 (names, compression, message layout), RFC 3597 §4
//! (compression only for RFC 1035 types), RFC 4034 §6.1 (canonical name
//! order), §6.2 + RFC 6840 §5.1 (canonical RDATA form), RFC 4034 §4.1.2
//! (type bitmaps), RFC 9460 (SvcParams), RFC 6891 (OPT), RFC 8945 (TSIG).

use std::cmp::Ordering;

#[derive(Clone, Copy, PartialEq, Eq, Debug)]
pub enum F {
    U8,
    U16,
    U32,
    U48,
    Ipv4,
    Ipv6,
    /// embedded name; `compress`: may be compressed when *composing*
    /// (RFC 1035 types only); `lc`: lower-cased in canonical form.
    Name { compress: bool, lc: bool },
    CharStr,
    /// one or more character strings to the end of RDATA
    CharStrList,
    Len8,
    Len16,
    Bitmap,
    Rest,
    IpsecGateway,
    SvcParams,
    Options,
}

pub const T_A: u16 = 1;
pub const T_NS: u16 = 2;
pub const T_MD: u16 = 3;
pub const T_MF: u16 = 4;
pub const T_CNAME: u16 = 5;
pub const T_SOA: u16 = 6;
pub const T_MB: u16 = 7;
pub const T_MG: u16 = 8;
pub const T_MR: u16 = 9;
pub const T_NULL: u16 = 10;
pub const T_PTR: u16 = 12;
pub const T_HINFO: u16 = 13;
pub const T_MINFO: u16 = 14;
pub const T_MX: u16 = 15;
pub const T_TXT: u16 = 16;
pub const T_RP: u16 = 17;
pub const T_AAAA: u16 = 28;
pub const T_SRV: u16 = 33;
pub const T_NAPTR: u16 = 35;
pub const T_DNAME: u16 = 39;
pub const T_OPT: u16 = 41;
pub const T_DS: u16 = 43;
pub const T_SSHFP: u16 = 44;
pub const T_IPSECKEY: u16 = 45;
pub const T_RRSIG: u16 = 46;
pub const T_NSEC: u16 = 47;
pub const T_DNSKEY: u16 = 48;
pub const T_NSEC3: u16 = 50;
pub const T_NSEC3PARAM: u16 = 51;
pub const T_TLSA: u16 = 52;
pub const T_CDS: u16 = 59;
pub const T_CDNSKEY: u16 = 60;
pub const T_OPENPGPKEY: u16 = 61;
pub const T_ZONEMD: u16 = 63;
pub const T_SVCB: u16 = 64;
pub const T_HTTPS: u16 = 65;
pub const T_TSIG: u16 = 250;
pub const T_CAA: u16 = 257;

/// All types the library has a concrete type for.
pub const KNOWN_TYPES: &[u16] = &[
    T_A, T_NS, T_MD, T_MF, T_CNAME, T_SOA, T_MB, T_MG, T_MR, T_NULL, T_PTR, T_HINFO, T_MINFO, T_MX, T_TXT, T_RP,
    T_AAAA, T_SRV, T_NAPTR, T_DNAME, T_OPT, T_DS, T_SSHFP, T_IPSECKEY, T_RRSIG, T_NSEC, T_DNSKEY, T_NSEC3,
    T_NSEC3PARAM, T_TLSA, T_CDS, T_CDNSKEY, T_OPENPGPKEY, T_ZONEMD, T_SVCB, T_HTTPS, T_TSIG, T_CAA,
];

pub fn type_name(t: u16) -> &'static str {
    match t {
        T_A => "A", T_NS => "NS", T_MD => "MD", T_MF => "MF", T_CNAME => "CNAME", T_SOA => "SOA", T_MB => "MB",
        T_MG => "MG", T_MR => "MR", T_NULL => "NULL", T_PTR => "PTR", T_HINFO => "HINFO", T_MINFO => "MINFO",
        T_MX => "MX", T_TXT => "TXT", T_RP => "RP", T_AAAA => "AAAA", T_SRV => "SRV", T_NAPTR => "NAPTR",
        T_DNAME => "DNAME", T_OPT => "OPT", T_DS => "DS", T_SSHFP => "SSHFP", T_IPSECKEY => "IPSECKEY",
        T_RRSIG => "RRSIG", T_NSEC => "NSEC", T_DNSKEY => "DNSKEY", T_NSEC3 => "NSEC3", T_NSEC3PARAM => "NSEC3PARAM",
        T_TLSA => "TLSA", T_CDS => "CDS", T_CDNSKEY => "CDNSKEY", T_OPENPGPKEY => "OPENPGPKEY", T_ZONEMD => "ZONEMD",
        T_SVCB => "SVCB", T_HTTPS => "HTTPS", T_TSIG => "TSIG", T_CAA => "CAA",
        _ => "TYPE?",
    }
}

const WK: F = F::Name { compress: true, lc: true };
const LC: F = F::Name { compress: false, lc: true };
const PLAIN: F = F::Name { compress: false, lc: false };

/// Field layout per type; `None` = unknown type (opaque, RFC 3597).
pub fn layout(t: u16) -> Option<&'static [F]> {
    Some(match t {
        T_A => &[F::Ipv4],
        T_NS | T_MD | T_MF | T_CNAME | T_MB | T_MG | T_MR | T_PTR => &[WK],
        T_SOA => &[WK, WK, F::U32, F::U32, F::U32, F::U32, F::U32],
        T_NULL => &[F::Rest],
        T_HINFO => &[F::CharStr, F::CharStr],
        T_MINFO => &[WK, WK],
        T_MX => &[F::U16, WK],
        T_TXT => &[F::CharStrList],
        T_RP => &[LC, LC],
        T_AAAA => &[F::Ipv6],
        T_SRV => &[F::U16, F::U16, F::U16, LC],
        T_NAPTR => &[F::U16, F::U16, F::CharStr, F::CharStr, F::CharStr, LC],
        T_DNAME => &[LC],
        T_OPT => &[F::Options],
        T_DS | T_CDS => &[F::U16, F::U8, F::U8, F::Rest],
        T_SSHFP => &[F::U8, F::U8, F::Rest],
        T_IPSECKEY => &[F::U8, F::U8, F::U8, F::IpsecGateway, F::Rest],
        T_RRSIG => &[F::U16, F::U8, F::U8, F::U32, F::U32, F::U32, F::U16, LC, F::Rest],
        T_NSEC => &[PLAIN, F::Bitmap],
        T_DNSKEY | T_CDNSKEY => &[F::U16, F::U8, F::U8, F::Rest],
        T_NSEC3 => &[F::U8, F::U8, F::U16, F::Len8, F::Len8, F::Bitmap],
        T_NSEC3PARAM => &[F::U8, F::U8, F::U16, F::Len8],
        T_TLSA => &[F::U8, F::U8, F::U8, F::Rest],
        T_OPENPGPKEY => &[F::Rest],
        T_ZONEMD => &[F::U32, F::U8, F::U8, F::Rest],
        T_SVCB | T_HTTPS => &[F::U16, PLAIN, F::SvcParams],
        T_TSIG => &[PLAIN, F::U48, F::U16, F::Len16, F::U16, F::U16, F::Len16],
        T_CAA => &[F::U8, F::CharStr, F::Rest],
        _ => return None,
    })
}

// ------------------------------------------------------------ names --

#[derive(Debug, Clone, PartialEq, Eq)]
pub enum NameErr {
    Short,
    BadLabelType,
    TooLong,
    ForwardPointer,
    TrailingData,
    NotAbsolute,
    EmptyLabel,
}

/// Validate an uncompressed absolute name: labels 1..63, total <= 255,
/// exactly one root label at the very end.
pub fn validate_abs_name(n: &[u8]) -> Result<(), NameErr> {
    if n.is_empty() {
        return Err(NameErr::Short);
    }
    if n.len() > 255 {
        return Err(NameErr::TooLong);
    }
    let mut p = 0;
    loop {
        if p >= n.len() {
            return Err(NameErr::NotAbsolute);
        }
        let l = n[p] as usize;
        if l == 0 {
            return if p + 1 == n.len() { Ok(()) } else { Err(NameErr::TrailingData) };
        }
        if l > 63 {
            return Err(NameErr::BadLabelType);
        }
        p += 1 + l;
        if p > n.len() {
            return Err(NameErr::Short);
        }
    }
}

/// Validate a relative name: labels 1..63, total <= 254, no root label.
pub fn validate_rel_name(n: &[u8]) -> Result<(), NameErr> {
    if n.len() > 254 {
        return Err(NameErr::TooLong);
    }
    let mut p = 0;
    while p < n.len() {
        let l = n[p] as usize;
        if l == 0 {
            return Err(NameErr::EmptyLabel);
        }
        if l > 63 {
            return Err(NameErr::BadLabelType);
        }
        p += 1 + l;
        if p > n.len() {
            return Err(NameErr::Short);
        }
    }
    Ok(())
}

/// Labels of an uncompressed (absolute or relative) name, root label excluded.
pub fn labels(n: &[u8]) -> Vec<&[u8]> {
    let mut v = Vec::new();
    let mut p = 0;
    while p < n.len() {
        let l = n[p] as usize;
        if l == 0 || p + 1 + l > n.len() {
            break;
        }
        v.push(&n[p + 1..p + 1 + l]);
        p += 1 + l;
    }
    v
}

pub fn lower(n: &[u8]) -> Vec<u8> {
    // lower-casing every octet is safe for uncompressed names because length
    // octets are < 64 and thus never in 'A'..='Z' (0x41..0x5A)?  No: 0x41..0x3F
    // do not overlap but lengths up to 63 = 0x3F < 0x41, so this is safe.
    n.iter().map(|b| b.to_ascii_lowercase()).collect()
}

/// Read a possibly compressed name at `pos` in `msg`. Strict RFC 1035
/// reading: a pointer must point strictly before the start of the part of
/// the name it appears in ("prior occurrence"), total length <= 255.
/// Returns (uncompressed name, position after the name in the original
/// sequence, number of pointers followed).
#[derive(Default, Debug, Clone)]
pub struct NameTrace {
    /// offsets at which a (non-root or root) label physically starts
    pub label_starts: std::collections::BTreeSet<usize>,
    /// (offset of the pointer, target offset, target was a known label start when read)
    pub pointers: Vec<(usize, usize, bool)>,
}

thread_local! {
    static TRACE: std::cell::RefCell<Option<NameTrace>> = const { std::cell::RefCell::new(None) };
}

/// Run `f` while collecting label starts and pointers of every name read.
pub fn with_trace<T>(f: impl FnOnce() -> T) -> (T, NameTrace) {
    TRACE.with(|t| *t.borrow_mut() = Some(NameTrace::default()));
    let r = f();
    let tr = TRACE.with(|t| t.borrow_mut().take()).unwrap_or_default();
    (r, tr)
}

pub fn read_name(msg: &[u8], pos: usize) -> Result<(Vec<u8>, usize, usize), NameErr> {
    let r = read_name_inner(msg, pos);
    r
}

fn read_name_inner(msg: &[u8], pos: usize) -> Result<(Vec<u8>, usize, usize), NameErr> {
    let mut out = Vec::new();
    let mut p = pos;
    let mut end = None;
    let mut limit = pos; // pointers must go strictly below the start of the current segment
    let mut ptrs = 0;
    loop {
        if p >= msg.len() {
            return Err(NameErr::Short);
        }
        let l = msg[p] as usize;
        match l & 0xC0 {
            0x00 => {
                if p + 1 + l > msg.len() {
                    return Err(NameErr::Short);
                }
                out.extend_from_slice(&msg[p..p + 1 + l]);
                if out.len() > 255 {
                    return Err(NameErr::TooLong);
                }
                if end.is_none() {
                    // only labels physically part of this occurrence
                    TRACE.with(|t| {
                        if let Some(tr) = t.borrow_mut().as_mut() {
                            tr.label_starts.insert(p);
                        }
                    });
                }
                p += 1 + l;
                if l == 0 {
                    return Ok((out, end.unwrap_or(p), ptrs));
                }
            }
            0xC0 => {
                if p + 2 > msg.len() {
                    return Err(NameErr::Short);
                }
                let t = ((l & 0x3F) << 8) | msg[p + 1] as usize;
                if end.is_none() {
                    end = Some(p + 2);
                    TRACE.with(|tc| {
                        if let Some(tr) = tc.borrow_mut().as_mut() {
                            let known = tr.label_starts.contains(&t);
                            tr.pointers.push((p, t, known));
                        }
                    });
                }
                if t >= limit {
                    return Err(NameErr::ForwardPointer);
                }
                limit = t;
                p = t;
                ptrs += 1;
            }
            _ => return Err(NameErr::BadLabelType),
        }
    }
}

/// RFC 4034 §6.1 canonical name order on uncompressed names.
pub fn canonical_name_cmp(a: &[u8], b: &[u8]) -> Ordering {
    let la = labels(a);
    let lb = labels(b);
    let mut ia = la.iter().rev();
    let mut ib = lb.iter().rev();
    loop {
        match (ia.next(), ib.next()) {
            (None, None) => return Ordering::Equal,
            (None, Some(_)) => return Ordering::Less,
            (Some(_), None) => return Ordering::Greater,
            (Some(x), Some(y)) => {
                let xl: Vec<u8> = x.iter().map(|c| c.to_ascii_lowercase()).collect();
                let yl: Vec<u8> = y.iter().map(|c| c.to_ascii_lowercase()).collect();
                match xl.cmp(&yl) {
                    Ordering::Equal => {}
                    o => return o,
                }
            }
        }
    }
}

// ------------------------------------------------------------ rdata --

#[derive(Debug, Clone, PartialEq, Eq)]
pub struct RdataErr(pub &'static str);

pub fn valid_bitmap(b: &[u8]) -> bool {
    let mut p = 0;
    let mut last: i32 = -1;
    while p < b.len() {
        if p + 2 > b.len() {
            return false;
        }
        let w = b[p] as i32;
        let l = b[p + 1] as usize;
        if w <= last || l == 0 || l > 32 || p + 2 + l > b.len() {
            return false;
        }
        // RFC 4034 4.1.2: "Trailing zero octets in the bitmap MUST be omitted."
        if b[p + 1 + l] == 0 {
            return false;
        }
        last = w;
        p += 2 + l;
    }
    true
}

fn valid_svcparams(b: &[u8]) -> bool {
    let mut p = 0;
    let mut last: i32 = -1;
    while p < b.len() {
        if p + 4 > b.len() {
            return false;
        }
        let k = u16::from_be_bytes([b[p], b[p + 1]]) as i32;
        let l = u16::from_be_bytes([b[p + 2], b[p + 3]]) as usize;
        if k <= last || p + 4 + l > b.len() {
            return false;
        }
        last = k;
        p += 4 + l;
    }
    true
}

fn valid_options(b: &[u8]) -> bool {
    let mut p = 0;
    while p < b.len() {
        if p + 4 > b.len() {
            return false;
        }
        let l = u16::from_be_bytes([b[p + 2], b[p + 3]]) as usize;
        if p + 4 + l > b.len() {
            return false;
        }
        p += 4 + l;
    }
    true
}

/// One decoded field: fixed octets or a name (kept apart so that the
/// composer can lower-case or compress it).
#[derive(Debug, Clone, PartialEq, Eq)]
pub enum Fv {
    Raw(Vec<u8>),
    Name { wire: Vec<u8>, lc: bool, compress: bool },
}

/// Decode RDATA at msg[start..start+rdlen] by the type's layout into fields,
/// decompressing embedded names (liberally: in every name field).
pub fn decode_rdata(msg: &[u8], start: usize, rdlen: usize, t: u16) -> Result<Vec<Fv>, RdataErr> {
    let end = start + rdlen;
    if end > msg.len() {
        return Err(RdataErr("rdata beyond message"));
    }
    let lay = match layout(t) {
        Some(l) => l,
        None => return Ok(vec![Fv::Raw(msg[start..end].to_vec())]),
    };
    let mut p = start;
    let mut out = Vec::new();
    let mut gw_type = 0u8;
    let fixed = |p: &mut usize, n: usize, out: &mut Vec<Fv>| -> Result<(), RdataErr> {
        if *p + n > end {
            return Err(RdataErr("short fixed field"));
        }
        out.push(Fv::Raw(msg[*p..*p + n].to_vec()));
        *p += n;
        Ok(())
    };
    for (i, f) in lay.iter().enumerate() {
        match *f {
            F::U8 => {
                fixed(&mut p, 1, &mut out)?;
                if t == T_IPSECKEY && i == 1 {
                    gw_type = msg[p - 1];
                }
            }
            F::U16 => fixed(&mut p, 2, &mut out)?,
            F::U32 | F::Ipv4 => fixed(&mut p, 4, &mut out)?,
            F::U48 => fixed(&mut p, 6, &mut out)?,
            F::Ipv6 => fixed(&mut p, 16, &mut out)?,
            F::Name { compress, lc } => {
                let (n, next, _) = read_name(&msg[..], p).map_err(|_| RdataErr("bad embedded name"))?;
                if next > end {
                    return Err(RdataErr("name beyond rdata"));
                }
                out.push(Fv::Name { wire: n, lc, compress });
                p = next;
            }
            F::CharStr | F::Len8 => {
                if p >= end {
                    return Err(RdataErr("short charstr"));
                }
                let l = msg[p] as usize;
                fixed(&mut p, 1 + l, &mut out)?;
            }
            F::CharStrList => {
                if p >= end {
                    return Err(RdataErr("empty charstr list"));
                }
                let s = p;
                while p < end {
                    let l = msg[p] as usize;
                    if p + 1 + l > end {
                        return Err(RdataErr("short charstr in list"));
                    }
                    p += 1 + l;
                }
                out.push(Fv::Raw(msg[s..p].to_vec()));
            }
            F::Len16 => {
                if p + 2 > end {
                    return Err(RdataErr("short len16"));
                }
                let l = u16::from_be_bytes([msg[p], msg[p + 1]]) as usize;
                fixed(&mut p, 2 + l, &mut out)?;
            }
            F::Bitmap => {
                if !valid_bitmap(&msg[p..end]) {
                    return Err(RdataErr("bad type bitmap"));
                }
                // an NSEC RR lists at least NSEC itself (RFC 4034 4.1.2, RFC 6840 6.4 allows
                // the empty bitmap for NSEC3 only)
                if t == T_NSEC && p == end {
                    return Err(RdataErr("empty NSEC type bitmap"));
                }
                out.push(Fv::Raw(msg[p..end].to_vec()));
                p = end;
            }
            F::Rest => {
                // RFC 8976 2.2.4: a ZONEMD digest is at least 12 octets
                if t == T_ZONEMD && end - p < 12 {
                    return Err(RdataErr("ZONEMD digest shorter than 12 octets"));
                }
                out.push(Fv::Raw(msg[p..end].to_vec()));
                p = end;
            }
            F::IpsecGateway => match gw_type {
                0 => out.push(Fv::Raw(vec![])),
                1 => fixed(&mut p, 4, &mut out)?,
                2 => fixed(&mut p, 16, &mut out)?,
                3 => {
                    let (n, next, _) = read_name(&msg[..], p).map_err(|_| RdataErr("bad gateway name"))?;
                    if next > end {
                        return Err(RdataErr("gateway name beyond rdata"));
                    }
                    out.push(Fv::Name { wire: n, lc: false, compress: false });
                    p = next;
                }
                _ => return Err(RdataErr("unknown gateway type")),
            },
            F::SvcParams => {
                if !valid_svcparams(&msg[p..end]) {
                    return Err(RdataErr("bad svcparams"));
                }
                out.push(Fv::Raw(msg[p..end].to_vec()));
                p = end;
            }
            F::Options => {
                if !valid_options(&msg[p..end]) {
                    return Err(RdataErr("bad options"));
                }
                out.push(Fv::Raw(msg[p..end].to_vec()));
                p = end;
            }
        }
    }
    if p != end {
        return Err(RdataErr("trailing data in rdata"));
    }
    Ok(out)
}

/// Uncompressed wire form of decoded fields.
pub fn compose_fields(fs: &[Fv]) -> Vec<u8> {
    let mut v = Vec::new();
    for f in fs {
        match f {
            Fv::Raw(b) => v.extend_from_slice(b),
            Fv::Name { wire, .. } => v.extend_from_slice(wire),
        }
    }
    v
}

/// Canonical form (RFC 4034 §6.2 / RFC 6840 §5.1): uncompressed, listed
/// embedded names lower-cased.
pub fn compose_fields_canonical(fs: &[Fv]) -> Vec<u8> {
    let mut v = Vec::new();
    for f in fs {
        match f {
            Fv::Raw(b) => v.extend_from_slice(b),
            Fv::Name { wire, lc, .. } => {
                if *lc {
                    v.extend_from_slice(&lower(wire))
                } else {
                    v.extend_from_slice(wire)
                }
            }
        }
    }
    v
}

/// Comparison form: uncompressed, *all* embedded names lower-cased (DNS
/// name equality is case-insensitive; compression may legitimately change
/// the case a reader reconstructs).
pub fn compose_fields_lower_all(fs: &[Fv]) -> Vec<u8> {
    let mut v = Vec::new();
    for f in fs {
        match f {
            Fv::Raw(b) => v.extend_from_slice(b),
            Fv::Name { wire, .. } => v.extend_from_slice(&lower(wire)),
        }
    }
    v
}

// ---------------------------------------------------------- message --

#[derive(Debug, Clone, PartialEq, Eq)]
pub struct RefQuestion {
    pub name: Vec<u8>,
    pub qtype: u16,
    pub qclass: u16,
}

#[derive(Debug, Clone, PartialEq, Eq)]
pub struct RefRecord {
    pub section: u8, // 1 answer, 2 authority, 3 additional
    pub owner: Vec<u8>,
    pub rtype: u16,
    pub class: u16,
    pub ttl: u32,
    /// uncompressed RDATA (embedded names expanded); None if the RDATA is
    /// malformed for its type
    pub rdata: Option<Vec<u8>>,
    pub rdata_canonical: Option<Vec<u8>>,
    /// uncompressed RDATA with every embedded name lower-cased
    pub rdata_cmpform: Option<Vec<u8>>,
    pub raw_rdlen: usize,
    pub start: usize,
    pub rdata_start: usize,
}

#[derive(Debug, Clone, PartialEq, Eq)]
pub struct RefMsg {
    pub id: u16,
    pub flags: u16,
    pub counts: [u16; 4],
    pub questions: Vec<RefQuestion>,
    pub records: Vec<RefRecord>,
    pub end: usize,
}

#[derive(Debug, Clone, PartialEq, Eq)]
pub enum MsgErr {
    ShortHeader,
    Question(usize),
    Record(usize),
}

pub fn parse_message(msg: &[u8]) -> Result<RefMsg, MsgErr> {
    match parse_message_prefix(msg) {
        (Some(m), None) => Ok(m),
        (_, Some(e)) => Err(e),
        (None, None) => Err(MsgErr::ShortHeader),
    }
}

/// Like `parse_message`, but also returns what could be parsed before the first error.
pub fn parse_message_prefix(msg: &[u8]) -> (Option<RefMsg>, Option<MsgErr>) {
    if msg.len() < 12 {
        return (None, Some(MsgErr::ShortHeader));
    }
    let u = |i: usize| u16::from_be_bytes([msg[i], msg[i + 1]]);
    let counts = [u(4), u(6), u(8), u(10)];
    let mut p = 12;
    let mut questions = Vec::new();
    let mut records = Vec::new();
    let mut err = None;
    'all: {
        for i in 0..counts[0] as usize {
            let Ok((name, next, _)) = read_name(msg, p) else {
                err = Some(MsgErr::Question(i));
                break 'all;
            };
            if next + 4 > msg.len() {
                err = Some(MsgErr::Question(i));
                break 'all;
            }
            questions.push(RefQuestion { name, qtype: u(next), qclass: u(next + 2) });
            p = next + 4;
        }
        let mut n = 0;
        for sec in 1..=3u8 {
            for _ in 0..counts[sec as usize] as usize {
                let start = p;
                let Ok((owner, next, _)) = read_name(msg, p) else {
                    err = Some(MsgErr::Record(n));
                    break 'all;
                };
                if next + 10 > msg.len() {
                    err = Some(MsgErr::Record(n));
                    break 'all;
                }
                let rtype = u(next);
                let class = u(next + 2);
                let ttl = u32::from_be_bytes([msg[next + 4], msg[next + 5], msg[next + 6], msg[next + 7]]);
                let rdlen = u(next + 8) as usize;
                let rs = next + 10;
                if rs + rdlen > msg.len() {
                    err = Some(MsgErr::Record(n));
                    break 'all;
                }
                let (rdata, rdc, rdl) = match decode_rdata(msg, rs, rdlen, rtype) {
                    Ok(fs) => (Some(compose_fields(&fs)), Some(compose_fields_canonical(&fs)), Some(compose_fields_lower_all(&fs))),
                    Err(_) => (None, None, None),
                };
                records.push(RefRecord { section: sec, owner, rtype, class, ttl, rdata, rdata_canonical: rdc, rdata_cmpform: rdl, raw_rdlen: rdlen, start, rdata_start: rs });
                p = rs + rdlen;
                n += 1;
            }
        }
    }
    (Some(RefMsg { id: u(0), flags: u(2), counts, questions, records, end: p }), err)
}

/// Compose an uncompressed record.
pub fn compose_record(owner: &[u8], rtype: u16, class: u16, ttl: u32, rdata: &[u8]) -> Vec<u8> {
    let mut v = Vec::with_capacity(owner.len() + 10 + rdata.len());
    v.extend_from_slice(owner);
    v.extend_from_slice(&rtype.to_be_bytes());
    v.extend_from_slice(&class.to_be_bytes());
    v.extend_from_slice(&ttl.to_be_bytes());
    v.extend_from_slice(&(rdata.len() as u16).to_be_bytes());
    v.extend_from_slice(rdata);
    v
}

pub fn header(id: u16, flags: u16, counts: [u16; 4]) -> Vec<u8> {
    let mut v = Vec::with_capacity(12);
    v.extend_from_slice(&id.to_be_bytes());
    v.extend_from_slice(&flags.to_be_bytes());
    for c in counts {
        v.extend_from_slice(&c.to_be_bytes());
    }
    v
}

/// Presentation form of an uncompressed name, for logs.
pub fn name_text(n: &[u8]) -> String {
    let ls = labels(n);
    if ls.is_empty() {
        return ".".into();
    }
    let mut s = String::new();
    for l in ls {
        for &c in l {
            if c == b'.' || c == b'\\' {
                s.push('\\');
                s.push(c as char);
            } else if c > 0x20 && c < 0x7f {
                s.push(c as char);
            } else {
                s.push_str(&format!("\\{:03}", c));
            }
        }
        s.push('.');
    }
    s
}
