//! Small deterministic PRNG (xoshiro256**), seeded through splitmix64.

#[derive(Clone, Debug)]
pub struct Rng {
    s: [u64; 4],
}

fn splitmix(x: &mut u64) -> u64 {
    *x = x.wrapping_add(0x9E37_79B9_7F4A_7C15);
    let mut z = *x;
    z = (z ^ (z >> 30)).wrapping_mul(0xBF58_476D_1CE4_E5B9);
    z = (z ^ (z >> 27)).wrapping_mul(0x94D0_49BB_1331_11EB);
    z ^ (z >> 31)
}

impl Rng {
    pub fn new(parts: &[u64]) -> Self {
        let mut x = 0x1234_5678_9ABC_DEF0u64;
        for p in parts {
            x ^= *p;
            splitmix(&mut x);
            x = x.rotate_left(17).wrapping_mul(0x2545_F491_4F6C_DD1D);
        }
        let s = [
            splitmix(&mut x),
            splitmix(&mut x),
            splitmix(&mut x),
            splitmix(&mut x),
        ];
        Rng { s }
    }

    pub fn u64(&mut self) -> u64 {
        let r = self.s[1].wrapping_mul(5).rotate_left(7).wrapping_mul(9);
        let t = self.s[1] << 17;
        self.s[2] ^= self.s[0];
        self.s[3] ^= self.s[1];
        self.s[1] ^= self.s[2];
        self.s[0] ^= self.s[3];
        self.s[2] ^= t;
        self.s[3] = self.s[3].rotate_left(45);
        r
    }

    pub fn u32(&mut self) -> u32 {
        (self.u64() >> 32) as u32
    }
    pub fn u16(&mut self) -> u16 {
        (self.u64() >> 48) as u16
    }
    pub fn u8(&mut self) -> u8 {
        (self.u64() >> 56) as u8
    }
    /// Uniform in 0..n (n > 0).
    pub fn below(&mut self, n: usize) -> usize {
        debug_assert!(n > 0);
        ((self.u64() >> 11) % (n as u64)) as usize
    }
    /// Uniform in lo..=hi.
    pub fn range(&mut self, lo: usize, hi: usize) -> usize {
        lo + self.below(hi - lo + 1)
    }
    pub fn chance(&mut self, num: usize, den: usize) -> bool {
        self.below(den) < num
    }
    pub fn bool(&mut self) -> bool {
        self.u64() & 1 == 1
    }
    pub fn pick<'a, T>(&mut self, xs: &'a [T]) -> &'a T {
        &xs[self.below(xs.len())]
    }
    pub fn bytes(&mut self, n: usize) -> Vec<u8> {
        let mut v = Vec::with_capacity(n);
        while v.len() < n {
            let x = self.u64().to_le_bytes();
            let k = (n - v.len()).min(8);
            v.extend_from_slice(&x[..k]);
        }
        v
    }
    pub fn shuffle<T>(&mut self, xs: &mut [T]) {
        for i in (1..xs.len()).rev() {
            let j = self.below(i + 1);
            xs.swap(i, j);
        }
    }
    pub fn fork(&mut self) -> Rng {
        Rng::new(&[self.u64(), self.u64()])
    }
}
