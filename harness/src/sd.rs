//! A minimal pair of serde back ends for driving the library's hand-written
//! `Serialize`/`Deserialize` impls as *constructors and converters*:
//!
//! * a compact (not human readable) deserializer that hands the visitor one
//!   octet string (owned or borrowed) — the route on which `Name`, `CharStr`,
//!   `RtypeBitmap` ... must validate raw octets themselves;
//! * a compact serializer that records the single octet string (or string)
//!   a value writes;
//! * the human readable side goes through `serde_json::Value`.
//!
//! Nothing here knows anything about DNS.
use serde::de::{self, DeserializeOwned, Visitor};
use serde::ser::{self, Impossible, Serialize};
use std::fmt;

#[derive(Debug)]
pub struct SdErr(pub String);
impl fmt::Display for SdErr {
    fn fmt(&self, f: &mut fmt::Formatter<'_>) -> fmt::Result {
        f.write_str(&self.0)
    }
}
impl std::error::Error for SdErr {}
impl de::Error for SdErr {
    fn custom<T: fmt::Display>(m: T) -> Self {
        SdErr(m.to_string())
    }
}
impl ser::Error for SdErr {
    fn custom<T: fmt::Display>(m: T) -> Self {
        SdErr(m.to_string())
    }
}

// ------------------------------------------------------------ deserializer --

pub enum Src<'de> {
    Owned(Vec<u8>),
    Borrowed(&'de [u8]),
    Transient(Vec<u8>),
}

pub struct BytesDe<'de>(pub Src<'de>);

impl<'de> de::Deserializer<'de> for BytesDe<'de> {
    type Error = SdErr;
    fn deserialize_any<V: Visitor<'de>>(self, v: V) -> Result<V::Value, SdErr> {
        match self.0 {
            Src::Owned(b) => v.visit_byte_buf(b),
            Src::Borrowed(b) => v.visit_borrowed_bytes(b),
            Src::Transient(b) => v.visit_bytes(&b),
        }
    }
    fn deserialize_newtype_struct<V: Visitor<'de>>(self, _name: &'static str, v: V) -> Result<V::Value, SdErr> {
        v.visit_newtype_struct(self)
    }
    fn is_human_readable(&self) -> bool {
        false
    }
    serde::forward_to_deserialize_any! {
        bool i8 i16 i32 i64 i128 u8 u16 u32 u64 u128 f32 f64 char str string
        bytes byte_buf option unit unit_struct seq tuple
        tuple_struct map struct enum identifier ignored_any
    }
}

/// Deserialize `T` from one octet string over the compact route (owned buffer).
pub fn de_owned<T: DeserializeOwned>(b: &[u8]) -> Result<T, String> {
    T::deserialize(BytesDe(Src::Owned(b.to_vec()))).map_err(|e| e.0)
}

/// Same with a buffer the visitor only sees for the duration of the call.
pub fn de_transient<T: DeserializeOwned>(b: &[u8]) -> Result<T, String> {
    T::deserialize(BytesDe(Src::Transient(b.to_vec()))).map_err(|e| e.0)
}

/// Same with a borrowed buffer (`visit_borrowed_bytes`).
pub fn de_borrowed<'de, T: de::Deserialize<'de>>(b: &'de [u8]) -> Result<T, String> {
    T::deserialize(BytesDe(Src::Borrowed(b))).map_err(|e| e.0)
}

/// Deserialize `T` from a string over the human readable route.
pub fn de_text<T: DeserializeOwned>(s: &str) -> Result<T, String> {
    serde_json::from_value::<T>(serde_json::Value::String(s.to_string())).map_err(|e| e.to_string())
}

// -------------------------------------------------------------- serializer --

/// What a value wrote through the compact serializer.
#[derive(Debug, Clone, PartialEq, Eq)]
pub enum Wrote {
    Bytes(Vec<u8>),
    Str(String),
}

pub struct BytesSer;

impl ser::Serializer for BytesSer {
    type Ok = Wrote;
    type Error = SdErr;
    type SerializeSeq = Impossible<Wrote, SdErr>;
    type SerializeTuple = Impossible<Wrote, SdErr>;
    type SerializeTupleStruct = Impossible<Wrote, SdErr>;
    type SerializeTupleVariant = Impossible<Wrote, SdErr>;
    type SerializeMap = Impossible<Wrote, SdErr>;
    type SerializeStruct = Impossible<Wrote, SdErr>;
    type SerializeStructVariant = Impossible<Wrote, SdErr>;

    fn is_human_readable(&self) -> bool {
        false
    }
    fn serialize_bytes(self, v: &[u8]) -> Result<Wrote, SdErr> {
        Ok(Wrote::Bytes(v.to_vec()))
    }
    fn serialize_str(self, v: &str) -> Result<Wrote, SdErr> {
        Ok(Wrote::Str(v.to_string()))
    }
    fn serialize_newtype_struct<T: ?Sized + Serialize>(self, _n: &'static str, v: &T) -> Result<Wrote, SdErr> {
        v.serialize(self)
    }
    fn serialize_bool(self, _: bool) -> Result<Wrote, SdErr> { Err(SdErr("unsupported".into())) }
    fn serialize_i8(self, _: i8) -> Result<Wrote, SdErr> { Err(SdErr("unsupported".into())) }
    fn serialize_i16(self, _: i16) -> Result<Wrote, SdErr> { Err(SdErr("unsupported".into())) }
    fn serialize_i32(self, _: i32) -> Result<Wrote, SdErr> { Err(SdErr("unsupported".into())) }
    fn serialize_i64(self, _: i64) -> Result<Wrote, SdErr> { Err(SdErr("unsupported".into())) }
    fn serialize_u8(self, _: u8) -> Result<Wrote, SdErr> { Err(SdErr("unsupported".into())) }
    fn serialize_u16(self, _: u16) -> Result<Wrote, SdErr> { Err(SdErr("unsupported".into())) }
    fn serialize_u32(self, _: u32) -> Result<Wrote, SdErr> { Err(SdErr("unsupported".into())) }
    fn serialize_u64(self, _: u64) -> Result<Wrote, SdErr> { Err(SdErr("unsupported".into())) }
    fn serialize_f32(self, _: f32) -> Result<Wrote, SdErr> { Err(SdErr("unsupported".into())) }
    fn serialize_f64(self, _: f64) -> Result<Wrote, SdErr> { Err(SdErr("unsupported".into())) }
    fn serialize_char(self, _: char) -> Result<Wrote, SdErr> { Err(SdErr("unsupported".into())) }
    fn serialize_none(self) -> Result<Wrote, SdErr> { Err(SdErr("unsupported".into())) }
    fn serialize_some<T: ?Sized + Serialize>(self, _: &T) -> Result<Wrote, SdErr> { Err(SdErr("unsupported".into())) }
    fn serialize_unit(self) -> Result<Wrote, SdErr> { Err(SdErr("unsupported".into())) }
    fn serialize_unit_struct(self, _: &'static str) -> Result<Wrote, SdErr> { Err(SdErr("unsupported".into())) }
    fn serialize_unit_variant(self, _: &'static str, _: u32, _: &'static str) -> Result<Wrote, SdErr> { Err(SdErr("unsupported".into())) }
    fn serialize_newtype_variant<T: ?Sized + Serialize>(self, _: &'static str, _: u32, _: &'static str, _: &T) -> Result<Wrote, SdErr> { Err(SdErr("unsupported".into())) }
    fn serialize_seq(self, _: Option<usize>) -> Result<Self::SerializeSeq, SdErr> { Err(SdErr("unsupported".into())) }
    fn serialize_tuple(self, _: usize) -> Result<Self::SerializeTuple, SdErr> { Err(SdErr("unsupported".into())) }
    fn serialize_tuple_struct(self, _: &'static str, _: usize) -> Result<Self::SerializeTupleStruct, SdErr> { Err(SdErr("unsupported".into())) }
    fn serialize_tuple_variant(self, _: &'static str, _: u32, _: &'static str, _: usize) -> Result<Self::SerializeTupleVariant, SdErr> { Err(SdErr("unsupported".into())) }
    fn serialize_map(self, _: Option<usize>) -> Result<Self::SerializeMap, SdErr> { Err(SdErr("unsupported".into())) }
    fn serialize_struct(self, _: &'static str, _: usize) -> Result<Self::SerializeStruct, SdErr> { Err(SdErr("unsupported".into())) }
    fn serialize_struct_variant(self, _: &'static str, _: u32, _: &'static str, _: usize) -> Result<Self::SerializeStructVariant, SdErr> { Err(SdErr("unsupported".into())) }
}

/// The octet string a value writes over the compact route.
pub fn ser_compact<T: Serialize + ?Sized>(v: &T) -> Result<Wrote, String> {
    v.serialize(BytesSer).map_err(|e| e.0)
}

/// The string a value writes over the human readable route.
pub fn ser_text<T: Serialize + ?Sized>(v: &T) -> Result<String, String> {
    match serde_json::to_value(v) {
        Ok(serde_json::Value::String(s)) => Ok(s),
        Ok(other) => Err(format!("not a string: {}", other)),
        Err(e) => Err(e.to_string()),
    }
}
