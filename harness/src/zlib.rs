//! Glue between the zone content model and the library's zonetree types.
use crate::refimpl::wire as w;
use crate::zmodel::*;
use bytes::Bytes;
use domain::base::iana::{Class, Rtype};
use domain::base::message::Message;
use domain::base::message_builder::MessageBuilder;
use domain::base::name::{FlattenInto, Name, ParsedName, ToName};
use domain::base::rdata::{ComposeRecordData, ParseRecordData};
use domain::base::record::{Record, Ttl};
use domain::base::zonefile_fmt::{DisplayKind, ZonefileFmt};
use domain::rdata::ZoneRecordData;
use domain::zonefile::inplace;
use domain::zonetree::types::{StoredName, StoredRecord, StoredRecordData};
use domain::zonetree::{Answer, Rrset, SharedRr, SharedRrset, Zone, ZoneBuilder};
use octseq::parse::Parser;
use std::collections::BTreeSet;
use std::sync::{Arc, Mutex};

pub fn sname(wire: &[u8]) -> StoredName {
    Name::from_octets(Bytes::copy_from_slice(wire)).expect("harness: valid name")
}

pub fn sdata(t: u16, rdata: &[u8]) -> StoredRecordData {
    let mut buf = vec![0u8; 12];
    buf.extend_from_slice(rdata);
    let b = Bytes::from(buf);
    let mut p = Parser::from_ref(&b);
    p.advance(12).unwrap();
    let mut sub = p.parse_parser(rdata.len()).unwrap();
    let d = ZoneRecordData::<Bytes, ParsedName<Bytes>>::parse_rdata(Rtype::from_int(t), &mut sub).expect("harness: valid rdata").expect("harness: known type");
    d.flatten_into()
}

/// Like `sdata`, for data that may not be acceptable to the library.
pub fn try_sdata(t: u16, rdata: &[u8]) -> Option<StoredRecordData> {
    let mut buf = vec![0u8; 12];
    buf.extend_from_slice(rdata);
    let b = Bytes::from(buf);
    let mut p = Parser::from_ref(&b);
    p.advance(12).ok()?;
    let mut sub = p.parse_parser(rdata.len()).ok()?;
    let d = ZoneRecordData::<Bytes, ParsedName<Bytes>>::parse_rdata(Rtype::from_int(t), &mut sub).ok()??;
    if sub.remaining() != 0 {
        return None;
    }
    Some(d.flatten_into())
}

pub fn srecord(name: &[u8], t: u16, ttl: u32, rdata: &[u8]) -> StoredRecord {
    Record::new(sname(name), Class::IN, Ttl::from_secs(ttl), sdata(t, rdata))
}

pub fn shared_rrset(r: &RRset) -> SharedRrset {
    let mut rs = Rrset::new(Rtype::from_int(r.rtype), Ttl::from_secs(r.ttl));
    for d in &r.rdatas {
        rs.push_data(sdata(r.rtype, d));
    }
    rs.into_shared()
}

/// History H1: the typed builder interface, classifying records the way
/// zonetree::parsed does (cuts with their glue first, then CNAMEs, then the rest).
pub fn build_with_builder(z: &ZoneC) -> Result<Zone, String> {
    let mut b = ZoneBuilder::new(sname(&z.apex), Class::IN);
    let names = z.names();
    for n in &names {
        if z.is_cut(n) {
            let ns = z.get(n, T_NS).unwrap();
            let glue: Vec<StoredRecord> = glue_of(z, ns).into_iter().map(|(o, t, d)| {
                let r = z.get(&o, t).unwrap();
                srecord(&r.name, t, r.ttl, &d)
            }).collect();
            b.insert_zone_cut(&sname(&ns.name), shared_rrset(ns), z.get(n, T_DS).map(shared_rrset), glue).map_err(|e| format!("insert_zone_cut: {:?}", e))?;
        }
    }
    for n in &names {
        if let Some(c) = z.get(n, T_CNAME) {
            b.insert_cname(&sname(&c.name), SharedRr::new(Ttl::from_secs(c.ttl), sdata(T_CNAME, &c.rdatas[0]))).map_err(|e| format!("insert_cname: {:?}", e))?;
        }
    }
    for r in z.rrsets.values() {
        if r.rtype == T_CNAME || (z.is_cut(&r.name) && (r.rtype == T_NS || r.rtype == T_DS)) {
            continue;
        }
        b.insert_rrset(&sname(&r.name), shared_rrset(r)).map_err(|_| "insert_rrset: out of zone".to_string())?;
    }
    Ok(b.build())
}

/// Zone file text of the content (library presentation format, SOA first).
pub fn zone_text(z: &ZoneC, order_seed: u64) -> String {
    let mut recs = z.records();
    // SOA first; the rest in a seeded order (the result must not depend on it)
    let mut rng = crate::rng::Rng::new(&[order_seed, 77]);
    rng.shuffle(&mut recs);
    recs.sort_by_key(|r| if r.1 == T_SOA { 0 } else { 1 });
    let mut s = String::new();
    for (o, t, ttl, d) in recs {
        let rec = srecord(&o, t, ttl, &d);
        s.push_str(&format!("{}\n", rec.display_zonefile(DisplayKind::Simple)));
    }
    s
}

/// History H2: text -> inplace::Zonefile -> parsed::Zonefile -> Zone.
pub fn build_from_text(z: &ZoneC, order_seed: u64) -> Result<Zone, String> {
    let text = zone_text(z, order_seed);
    let mut zf = inplace::Zonefile::from(text.as_bytes());
    zf.set_origin(sname(&z.apex));
    let parsed = domain::zonetree::parsed::Zonefile::try_from(zf).map_err(|e| format!("parsed::Zonefile: {}", e))?;
    Zone::try_from(parsed).map_err(|e| format!("Zone::try_from: {}", e))
}

#[derive(Clone, Debug, PartialEq, Eq)]
pub struct Observed {
    pub rcode: u8,
    pub aa: bool,
    /// (owner, type, ttl, rdata) per section
    pub answer: Vec<(Vec<u8>, u16, u32, Vec<u8>)>,
    pub authority: Vec<(Vec<u8>, u16, u32, Vec<u8>)>,
    pub additional: Vec<(Vec<u8>, u16, u32, Vec<u8>)>,
}

/// Observe an Answer through to_message and the reference walker.
pub fn observe(ans: &Answer, qname: &[u8], qtype: u16) -> Result<Observed, String> {
    let mut req = w::header(0x1234, 0x0100, [1, 0, 0, 0]);
    req.extend_from_slice(qname);
    req.extend_from_slice(&qtype.to_be_bytes());
    req.extend_from_slice(&[0, 1]);
    let reqm = Message::from_octets(req).map_err(|e| e.to_string())?;
    let b = ans.to_message(&reqm, MessageBuilder::new_vec());
    let oct = b.finish();
    let m = w::parse_message(&oct).map_err(|e| format!("to_message output unparseable: {:?}", e))?;
    let mut o = Observed { rcode: (m.flags & 0xF) as u8, aa: m.flags & 0x0400 != 0, answer: vec![], authority: vec![], additional: vec![] };
    if m.questions.len() != 1 || m.questions[0].name != qname {
        return Err("question not echoed as asked".into());
    }
    for r in &m.records {
        let item = (r.owner.clone(), r.rtype, r.ttl, r.rdata.clone().ok_or("bad rdata in answer")?);
        match r.section {
            1 => o.answer.push(item),
            2 => o.authority.push(item),
            _ => o.additional.push(item),
        }
    }
    Ok(o)
}

/// Does the observed message have the expected shape? Ok(()) or a description.
pub fn matches(z: &ZoneC, qname: &[u8], exp: &Shape, o: &Observed) -> Result<(), String> {
    let soa_ok = |o: &Observed| -> bool {
        o.authority.len() == 1 && o.authority[0].1 == T_SOA && w::lower(&o.authority[0].0) == w::lower(&z.apex) && z.get(&z.apex, T_SOA).map_or(false, |s| s.rdatas[0] == o.authority[0].3)
    };
    let set = |v: &[(Vec<u8>, u16, u32, Vec<u8>)]| -> BTreeSet<(Vec<u8>, u16, Vec<u8>)> { v.iter().map(|x| (w::lower(&x.0), x.1, x.3.clone())).collect() };
    match exp {
        Shape::OutOfZone => Err("harness: out-of-zone is judged by the caller".into()),
        Shape::Data { any_of } => {
            if o.rcode != 0 || !o.aa {
                return Err(format!("rcode {} aa {}", o.rcode, o.aa));
            }
            if o.answer.is_empty() {
                return Err("empty answer section".into());
            }
            if o.answer.iter().any(|r| r.0 != qname) {
                return Err("answer owner is not the query name as asked".into());
            }
            let t = o.answer[0].1;
            let Some((_, ttl, rd)) = any_of.iter().find(|x| x.0 == t) else { return Err(format!("answer of type {} not expected", t)) };
            let got: BTreeSet<Vec<u8>> = o.answer.iter().map(|r| r.3.clone()).collect();
            let want: BTreeSet<Vec<u8>> = rd.iter().cloned().collect();
            if got != want || o.answer.len() != rd.len() || o.answer.iter().any(|r| r.1 != t || r.2 != *ttl) {
                return Err("answer RRset differs from the zone's".into());
            }
            if !o.authority.is_empty() {
                return Err("unexpected authority section".into());
            }
            Ok(())
        }
        Shape::Cname { ttl, target } => {
            if o.rcode != 0 || !o.aa {
                return Err(format!("rcode {} aa {}", o.rcode, o.aa));
            }
            if o.answer.len() != 1 || o.answer[0].1 != T_CNAME || o.answer[0].0 != qname || o.answer[0].2 != *ttl || o.answer[0].3 != *target {
                return Err("answer is not exactly the CNAME record".into());
            }
            Ok(())
        }
        Shape::NoData => {
            if o.rcode != 0 || !o.aa || !o.answer.is_empty() {
                return Err(format!("rcode {} aa {} answers {}", o.rcode, o.aa, o.answer.len()));
            }
            if !soa_ok(o) {
                return Err("negative answer without the zone's SOA in the authority section".into());
            }
            Ok(())
        }
        Shape::NxDomain => {
            if o.rcode != 3 || !o.aa || !o.answer.is_empty() {
                return Err(format!("rcode {} aa {} answers {}", o.rcode, o.aa, o.answer.len()));
            }
            if !soa_ok(o) {
                return Err("NXDOMAIN without the zone's SOA in the authority section".into());
            }
            Ok(())
        }
        Shape::Referral { cut, ns, ds, glue } => {
            if o.rcode != 0 || o.aa || !o.answer.is_empty() {
                return Err(format!("rcode {} aa {} answers {}", o.rcode, o.aa, o.answer.len()));
            }
            let got_ns: BTreeSet<Vec<u8>> = o.authority.iter().filter(|r| r.1 == T_NS).map(|r| r.3.clone()).collect();
            let got_ds: BTreeSet<Vec<u8>> = o.authority.iter().filter(|r| r.1 == T_DS).map(|r| r.3.clone()).collect();
            if o.authority.iter().any(|r| w::lower(&r.0) != w::lower(cut) || (r.1 != T_NS && r.1 != T_DS)) {
                return Err("authority section holds something else than the cut's NS/DS".into());
            }
            if got_ns != ns.iter().cloned().collect() {
                return Err("referral NS set differs".into());
            }
            if got_ds != ds.clone().unwrap_or_default().into_iter().collect() {
                return Err("referral DS set differs".into());
            }
            if set(&o.additional) != *glue {
                return Err(format!("glue differs: {} records vs {} expected", o.additional.len(), glue.len()));
            }
            Ok(())
        }
    }
}

pub fn obs_kind(o: &Observed) -> &'static str {
    if o.rcode == 3 {
        "nxdomain"
    } else if o.rcode != 0 {
        "error"
    } else if o.answer.iter().any(|r| r.1 == T_CNAME) && o.answer.len() == 1 {
        "cname"
    } else if !o.answer.is_empty() {
        "data"
    } else if !o.aa {
        "referral"
    } else {
        "nodata"
    }
}

/// Everything `walk()` enumerates, as a sorted multiset of (owner lower, type, ttl, rdata).
pub fn walk_records(zone: &Zone) -> Vec<(Vec<u8>, u16, u32, Vec<u8>)> {
    let out: Arc<Mutex<Vec<(Vec<u8>, u16, u32, Vec<u8>)>>> = Arc::new(Mutex::new(Vec::new()));
    let o2 = out.clone();
    zone.read().walk(Box::new(move |owner: StoredName, rrset: &SharedRrset, _at_cut: bool| {
        for d in rrset.data() {
            let mut rd = Vec::new();
            d.compose_rdata(&mut rd).unwrap();
            o2.lock().unwrap().push((w::lower(owner.as_slice()), rrset.rtype().to_int(), rrset.ttl().as_secs(), rd));
        }
    }));
    let mut v = out.lock().unwrap().clone();
    v.sort();
    v
}

pub fn model_records(z: &ZoneC) -> Vec<(Vec<u8>, u16, u32, Vec<u8>)> {
    let mut v: Vec<_> = z.records().into_iter().map(|(o, t, ttl, d)| (w::lower(&o), t, ttl, d)).collect();
    v.sort();
    v
}

pub fn qname_of(wire: &[u8]) -> Name<Bytes> {
    sname(wire)
}

pub fn to_vec_name(n: &impl ToName) -> Vec<u8> {
    n.to_vec().as_slice().to_vec()
}
