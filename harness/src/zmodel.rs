//! Zone content model and reference lookup (RFC 1034 §4.3.2, RFC 4592,
//! RFC 4035 §3.1.4.1 for DS at a cut), shared by the zone properties.
use crate::rng::Rng;
use crate::refimpl::wire as w;
use std::collections::{BTreeMap, BTreeSet};

pub const T_A: u16 = 1;
pub const T_NS: u16 = 2;
pub const T_CNAME: u16 = 5;
pub const T_SOA: u16 = 6;
pub const T_MX: u16 = 15;
pub const T_TXT: u16 = 16;
pub const T_AAAA: u16 = 28;
pub const T_DS: u16 = 43;

#[derive(Clone, Debug, PartialEq, Eq)]
pub struct RRset {
    /// owner in the spelling it was given
    pub name: Vec<u8>,
    pub rtype: u16,
    pub ttl: u32,
    /// uncompressed RDATA of each record, sorted
    pub rdatas: Vec<Vec<u8>>,
}

#[derive(Clone, Debug, Default, PartialEq, Eq)]
pub struct ZoneC {
    pub apex: Vec<u8>,
    /// key: (lower-cased owner, type)
    pub rrsets: BTreeMap<(Vec<u8>, u16), RRset>,
}

impl ZoneC {
    pub fn names(&self) -> BTreeSet<Vec<u8>> {
        self.rrsets.keys().map(|k| k.0.clone()).collect()
    }
    pub fn get(&self, name: &[u8], t: u16) -> Option<&RRset> {
        self.rrsets.get(&(w::lower(name), t))
    }
    pub fn types_at(&self, name: &[u8]) -> Vec<u16> {
        let n = w::lower(name);
        self.rrsets.range((n.clone(), 0)..=(n, u16::MAX)).map(|(k, _)| k.1).collect()
    }
    pub fn insert(&mut self, r: RRset) {
        self.rrsets.insert((w::lower(&r.name), r.rtype), r);
    }
    pub fn is_apex(&self, name: &[u8]) -> bool {
        w::lower(name) == w::lower(&self.apex)
    }
    pub fn is_cut(&self, name: &[u8]) -> bool {
        !self.is_apex(name) && self.get(name, T_NS).is_some()
    }
    /// Records as (owner, type, ttl, rdata), in key order.
    pub fn records(&self) -> Vec<(Vec<u8>, u16, u32, Vec<u8>)> {
        let mut v = Vec::new();
        for r in self.rrsets.values() {
            for d in &r.rdatas {
                v.push((r.name.clone(), r.rtype, r.ttl, d.clone()));
            }
        }
        v
    }
}

/// name is `anc` or below it (case-insensitive, label aligned)
pub fn is_at_or_below(name: &[u8], anc: &[u8]) -> bool {
    let n = w::lower(name);
    let a = w::lower(anc);
    if n.len() < a.len() || n[n.len() - a.len()..] != a[..] {
        return false;
    }
    let cut = n.len() - a.len();
    let mut p = 0;
    while p < cut {
        p += 1 + n[p] as usize;
    }
    p == cut
}

pub fn parent(name: &[u8]) -> Option<Vec<u8>> {
    if name.len() <= 1 {
        None
    } else {
        Some(name[1 + name[0] as usize..].to_vec())
    }
}

#[derive(Clone, Debug, PartialEq, Eq)]
pub enum Shape {
    OutOfZone,
    /// NOERROR, AA, answer = the RRset of the queried type (for ANY: any one RRset of the node)
    Data { any_of: Vec<(u16, u32, Vec<Vec<u8>>)> },
    /// NOERROR, AA, the CNAME record
    Cname { ttl: u32, target: Vec<u8> },
    /// NOERROR, AA, empty answer, SOA in authority
    NoData,
    /// NXDOMAIN, AA, SOA in authority
    NxDomain,
    /// NOERROR, not AA, NS (+DS) of the cut in authority, glue in additional
    Referral { cut: Vec<u8>, ns: Vec<Vec<u8>>, ds: Option<Vec<Vec<u8>>>, glue: BTreeSet<(Vec<u8>, u16, Vec<u8>)> },
}

impl Shape {
    pub fn kind(&self) -> &'static str {
        match self {
            Shape::OutOfZone => "out-of-zone",
            Shape::Data { .. } => "data",
            Shape::Cname { .. } => "cname",
            Shape::NoData => "nodata",
            Shape::NxDomain => "nxdomain",
            Shape::Referral { .. } => "referral",
        }
    }
}

/// Facts about how the answer came about (for signatures and evidence).
#[derive(Clone, Debug, Default, PartialEq, Eq)]
pub struct Facts {
    pub exact: bool,
    pub ent: bool,
    pub wildcard: bool,
    pub below_cut: bool,
    pub at_cut: bool,
}

/// Glue of a delegation: address records whose owner is a name server target of the cut
/// (as zonetree::parsed collects it).
pub fn glue_of(z: &ZoneC, ns: &RRset) -> BTreeSet<(Vec<u8>, u16, Vec<u8>)> {
    let mut g = BTreeSet::new();
    for target in &ns.rdatas {
        for t in [T_A, T_AAAA] {
            if let Some(r) = z.get(target, t) {
                for d in &r.rdatas {
                    g.insert((w::lower(&r.name), t, d.clone()));
                }
            }
        }
    }
    g
}

/// The set of names that exist for lookup purposes: owners of RRsets that are not
/// occluded by a delegation above them, plus their ancestors down to the apex (empty
/// non-terminals).
fn existing_names(z: &ZoneC) -> BTreeSet<Vec<u8>> {
    let mut s = BTreeSet::new();
    let cuts: Vec<Vec<u8>> = z.names().into_iter().filter(|n| z.is_cut(n)).collect();
    for n in z.names() {
        // occluded: strictly below a cut
        if cuts.iter().any(|c| is_at_or_below(&n, c) && n != *c) {
            continue;
        }
        let mut cur = n.clone();
        loop {
            s.insert(cur.clone());
            if z.is_apex(&cur) {
                break;
            }
            match parent(&cur) {
                Some(p) => cur = p,
                None => break,
            }
        }
    }
    s
}

fn node_answer(z: &ZoneC, node: &[u8], qtype: u16) -> Shape {
    if let Some(c) = z.get(node, T_CNAME) {
        return Shape::Cname { ttl: c.ttl, target: c.rdatas[0].clone() };
    }
    if qtype == 255 {
        let all: Vec<(u16, u32, Vec<Vec<u8>>)> = z.types_at(node).into_iter().map(|t| { let r = z.get(node, t).unwrap(); (t, r.ttl, r.rdatas.clone()) }).collect();
        return if all.is_empty() { Shape::NoData } else { Shape::Data { any_of: all } };
    }
    match z.get(node, qtype) {
        Some(r) => Shape::Data { any_of: vec![(qtype, r.ttl, r.rdatas.clone())] },
        None => Shape::NoData,
    }
}

pub fn lookup(z: &ZoneC, qname: &[u8], qtype: u16) -> (Shape, Facts) {
    let mut f = Facts::default();
    if !is_at_or_below(qname, &z.apex) {
        return (Shape::OutOfZone, f);
    }
    let q = w::lower(qname);
    // walk down from the apex looking for a delegation
    let mut chain: Vec<Vec<u8>> = Vec::new();
    let mut cur = q.clone();
    loop {
        chain.push(cur.clone());
        if z.is_apex(&cur) {
            break;
        }
        cur = parent(&cur).unwrap();
    }
    chain.reverse(); // apex first
    for n in chain.iter().skip(1) {
        if z.is_cut(n) {
            let ns = z.get(n, T_NS).unwrap();
            if *n == q {
                f.at_cut = true;
                if qtype == T_DS {
                    return (match z.get(n, T_DS) { Some(d) => Shape::Data { any_of: vec![(T_DS, d.ttl, d.rdatas.clone())] }, None => Shape::NoData }, f);
                }
            } else {
                f.below_cut = true;
            }
            return (Shape::Referral { cut: n.clone(), ns: ns.rdatas.clone(), ds: z.get(n, T_DS).map(|d| d.rdatas.clone()), glue: glue_of(z, ns) }, f);
        }
    }
    let exist = existing_names(z);
    if exist.contains(&q) {
        f.exact = true;
        f.ent = z.types_at(&q).is_empty();
        return (node_answer(z, &q, qtype), f);
    }
    // closest encloser
    let mut ce = q.clone();
    loop {
        ce = parent(&ce).unwrap();
        if exist.contains(&ce) {
            break;
        }
    }
    let mut wc = vec![1, b'*'];
    wc.extend_from_slice(&ce);
    if exist.contains(&wc) && !z.types_at(&wc).is_empty() {
        f.wildcard = true;
        // a wildcard owning a delegation is not used for synthesis here (RFC 4592 4.2 discourages it; not generated)
        return (node_answer(z, &wc, qtype), f);
    }
    if exist.contains(&wc) {
        // the wildcard name exists only as an empty non-terminal: RFC 4592 2.2.1 -> the
        // synthesised answer is "no data"
        f.wildcard = true;
        return (Shape::NoData, f);
    }
    (Shape::NxDomain, f)
}

// ------------------------------------------------------------ generator --

pub fn nm(labels: &[&[u8]], apex: &[u8]) -> Vec<u8> {
    let mut v = Vec::new();
    for l in labels {
        v.push(l.len() as u8);
        v.extend_from_slice(l);
    }
    v.extend_from_slice(apex);
    v
}

fn rd_a(rng: &mut Rng) -> Vec<u8> {
    vec![192, 0, 2, rng.u8()]
}
fn rd_aaaa(rng: &mut Rng) -> Vec<u8> {
    let mut v = vec![0x20, 0x01, 0x0d, 0xb8];
    v.extend(rng.bytes(12));
    v
}
fn rd_txt(rng: &mut Rng) -> Vec<u8> {
    let s = format!("v={}", rng.u16());
    let mut v = vec![s.len() as u8];
    v.extend_from_slice(s.as_bytes());
    v
}
pub fn rd_soa(apex: &[u8], serial: u32) -> Vec<u8> {
    let mut v = nm(&[b"ns"], apex);
    v.extend(nm(&[b"hostmaster"], apex));
    for x in [serial, 3600, 600, 86400, 300] {
        v.extend_from_slice(&x.to_be_bytes());
    }
    v
}

const LABELS: [&[u8]; 6] = [b"a", b"b", b"c", b"*", b"d", b"A"];

pub fn gen_name(rng: &mut Rng, apex: &[u8]) -> Vec<u8> {
    let depth = match rng.below(10) { 0..=4 => 1, 5..=7 => 2, _ => 3 };
    let ls: Vec<&[u8]> = (0..depth).map(|_| *rng.pick(&LABELS)).collect();
    nm(&ls, apex)
}

/// A zone over a tiny label alphabet so that delegations, CNAMEs, wildcards, empty
/// non-terminals, occluded data and case variants collide constantly.
pub fn gen_zone(rng: &mut Rng, serial: u32) -> ZoneC {
    let apex: Vec<u8> = vec![7, b'e', b'x', b'a', b'm', b'p', b'l', b'e', 0];
    let mut z = ZoneC { apex: apex.clone(), rrsets: BTreeMap::new() };
    z.insert(RRset { name: apex.clone(), rtype: T_SOA, ttl: 3600, rdatas: vec![rd_soa(&apex, serial)] });
    z.insert(RRset { name: apex.clone(), rtype: T_NS, ttl: 3600, rdatas: vec![nm(&[b"ns"], &apex)] });
    if rng.bool() {
        z.insert(RRset { name: nm(&[b"ns"], &apex), rtype: T_A, ttl: 300, rdatas: vec![rd_a(rng)] });
    }
    let n = rng.range(1, 9);
    for _ in 0..n {
        let name = gen_name(rng, &apex);
        if z.is_apex(&name) {
            continue;
        }
        let has_cname = z.get(&name, T_CNAME).is_some();
        let has_other = !z.types_at(&name).is_empty() && !has_cname;
        let cut_here = z.is_cut(&name);
        match rng.below(10) {
            0 | 1 if !has_other && !has_cname && !cut_here => {
                // CNAME node
                let target = if rng.bool() { gen_name(rng, &apex) } else { nm(&[b"target"], b"\x05other\x00") };
                z.insert(RRset { name, rtype: T_CNAME, ttl: rng.range(1, 5) as u32 * 100, rdatas: vec![target] });
            }
            2 | 3 if !has_cname && (!has_other || z.types_at(&name).iter().all(|t| matches!(*t, T_A | T_AAAA | T_NS | T_DS))) && !name.starts_with(&[1, b'*']) => {
                // delegation: NS (+DS) and maybe glue
                let in_zone = rng.bool();
                let target = if in_zone { let mut t = vec![2, b'n', b's']; t.extend_from_slice(&name); t } else { nm(&[b"ns"], b"\x05other\x00") };
                let mut targets = vec![target.clone()];
                if rng.chance(1, 3) {
                    targets.push(nm(&[b"ns2"], &apex));
                }
                targets.sort();
                z.insert(RRset { name: name.clone(), rtype: T_NS, ttl: 3600, rdatas: targets });
                if rng.bool() {
                    let mut ds = vec![0x30, 0x39, 13, 2];
                    ds.extend(rng.bytes(32));
                    z.insert(RRset { name: name.clone(), rtype: T_DS, ttl: 3600, rdatas: vec![ds] });
                }
                if in_zone && rng.chance(3, 4) {
                    z.insert(RRset { name: target, rtype: T_A, ttl: 300, rdatas: vec![rd_a(rng)] });
                }
                if rng.chance(1, 3) {
                    // occluded data below the cut
                    let mut o = vec![1, b'x'];
                    o.extend_from_slice(&name);
                    z.insert(RRset { name: o, rtype: T_TXT, ttl: 60, rdatas: vec![rd_txt(rng)] });
                }
            }
            _ if !has_cname && !cut_here => {
                let t = *rng.pick(&[T_A, T_A, T_AAAA, T_TXT, T_MX]);
                let k = rng.range(1, 3);
                let mut rd: Vec<Vec<u8>> = (0..k)
                    .map(|_| match t {
                        T_A => rd_a(rng),
                        T_AAAA => rd_aaaa(rng),
                        T_TXT => rd_txt(rng),
                        _ => {
                            let mut v = (rng.below(50) as u16).to_be_bytes().to_vec();
                            v.extend(nm(&[b"mail"], &apex));
                            v
                        }
                    })
                    .collect();
                rd.sort();
                rd.dedup();
                z.insert(RRset { name, rtype: t, ttl: rng.range(1, 9) as u32 * 100, rdatas: rd });
            }
            _ => {}
        }
    }
    // name servers shared between delegations: a cut may name a server that lives below a sibling cut
    // (and has its address records there), so that one cut's glue is found under another
    let cuts: Vec<Vec<u8>> = z.names().into_iter().filter(|n| z.is_cut(n)).collect();
    if cuts.len() >= 2 && rng.chance(2, 3) {
        let servers: Vec<Vec<u8>> = cuts.iter().map(|cn| { let mut t = vec![2, b'n', b's']; t.extend_from_slice(cn); t }).filter(|t| z.get(t, T_A).is_some()).collect();
        for cn in &cuts {
            for sv in &servers {
                if !is_at_or_below(sv, cn) && rng.chance(1, 2) {
                    let mut ns = z.get(cn, T_NS).unwrap().clone();
                    if !ns.rdatas.contains(sv) {
                        ns.rdatas.push(sv.clone());
                        ns.rdatas.sort();
                        z.insert(ns);
                    }
                }
            }
        }
    }
    z
}

/// Query names worth asking: every owner, its ancestors, children, names under wildcards and cuts.
pub fn query_names(rng: &mut Rng, z: &ZoneC) -> Vec<Vec<u8>> {
    let mut s: BTreeSet<Vec<u8>> = BTreeSet::new();
    for n in z.names() {
        let mut cur = n.clone();
        loop {
            s.insert(cur.clone());
            for l in [&b"x"[..], b"a", b"*", b"zz"] {
                let mut c = vec![l.len() as u8];
                c.extend_from_slice(l);
                c.extend_from_slice(&cur);
                if c.len() <= 255 {
                    s.insert(c);
                }
            }
            if z.is_apex(&cur) {
                break;
            }
            cur = parent(&cur).unwrap();
        }
    }
    let mut v: Vec<Vec<u8>> = s.into_iter().collect();
    // spelling variants: the answer must echo the query's spelling
    for i in 0..v.len() {
        if rng.chance(1, 4) {
            v[i] = crate::gen::names::case_variant(rng, &v[i]);
        }
    }
    v.push(nm(&[b"www"], b"\x05other\x00"));
    v
}

pub const QTYPES: [u16; 9] = [T_A, T_AAAA, T_NS, T_DS, T_CNAME, T_SOA, T_TXT, T_MX, 255];
