#!/bin/sh
# Build the harness (native verif profile, both feature sets the checks use) from files on disk only;
# other build modes are built on first use by ./check.
# Incremental compilation is off everywhere (see ./check): a target directory that had seen several versions
# of /repo and of the harness once produced objects the linker refused, while a from-scratch build linked.
set -e
cd "$(dirname "$0")"
export CARGO_NET_OFFLINE=true
export CARGO_INCREMENTAL=0
build() {
  cargo build --profile verif --manifest-path harness/Cargo.toml --target-dir target/native --no-default-features --features "$1"
}
for feats in crypto,hooks hooks; do
  if ! build "$feats"; then
    # artefacts of an earlier build that do not fit together: rebuild what comes from /repo and the harness
    cargo clean --profile verif --manifest-path harness/Cargo.toml --target-dir target/native -p dverif -p domain || true
    rm -rf target/native/verif/incremental
    build "$feats"
  fi
done
