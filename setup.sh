#!/bin/sh
# Build the harness (native verif profile) from files on disk only; other
# build modes are built on first use by ./check.
set -e
cd "$(dirname "$0")"
export CARGO_NET_OFFLINE=true
cargo build --profile verif --manifest-path harness/Cargo.toml --target-dir target/native --no-default-features --features crypto,hooks
