#!/usr/bin/env python3
"""Regenerate MANIFEST.json from checkers/props.py (claimed checks) and properties.jsonl."""
import json, os, sys, subprocess
V = os.path.dirname(os.path.dirname(os.path.abspath(__file__)))
sys.path.insert(0, os.path.join(V, "checkers"))
from props import PROPS
props = [json.loads(l) for l in open(os.path.join(V, "properties.jsonl"))]
NA = {}
na_path = os.path.join(V, "checkers", "not_applicable.json")
if os.path.exists(na_path):
    NA = json.load(open(na_path))
hooks = subprocess.run(["git", "-C", "/repo", "log", "--format=%h %s"], capture_output=True, text=True).stdout.splitlines()
hook_commits = [l.split()[0] for l in hooks if l.split(" ", 1)[1].startswith("verif-hooks")]
checks = []
for p in props:
    pid = p["id"]
    if pid not in PROPS or PROPS[pid].get("disabled"):
        continue
    c = PROPS[pid]
    modes = sorted({s["mode"] for s in c["stages"]})
    checks.append({
        "property_id": pid,
        "quick_cmd": f"./check {pid} --tier quick",
        "thorough_cmd": f"./check {pid} --tier thorough",
        "evidence_file": f"/verif/evidence/{pid}.json",
        "replay_cmd_template": f"./check {pid} --replay {{path}}",
        "engine": "dverif",
        "level_claimed": {"category": c.get("level", "exploration"),
                          "text": c.get("level_text", "Runtime monitoring: the real library code is driven by seeded hostile/structured workloads while oracles (independent reference "
                                  "implementations, executable models, algebraic laws) and sanitizers watch every execution. The verdict is about the executions produced: "
                                  "held on the counted cases, not a proof. " + c["rule"]),
                          "design_ref": f"DESIGN.md section 3, {pid}"},
        "level_note": "; ".join(c.get("assumptions", [])) or "see DESIGN.md",
        "technique": c.get("technique", "runtime monitoring: seeded workload + reference-model oracle" + (" + sanitizers (" + ", ".join(m for m in modes if m not in ("native", "release")) + ")" if any(m not in ("native", "release") for m in modes) else "")),
    })
m = {
    "version": 1,
    "setup_cmd": "./setup.sh",
    "hooks": {"guard": "cargo feature verif-hooks (off by default)",
              "enable": "the harness crate depends on domain with feature verif-hooks (harness feature 'hooks', always on in ./check)",
              "baseline_off_cmd": "cd /repo && cargo test --workspace --no-fail-fast --offline",
              "source_commits": hook_commits, "add_only": True},
    "engines": [{"name": "dverif", "path": "/verif/harness", "serves_properties": [c["property_id"] for c in checks],
                 "kind_free_text": "Rust harness linking /repo (path dependency): seeded generators, independent reference implementations, monitors; driven by /verif/check (python3) which shards, runs native/ASan/TSan/Miri builds, merges event counts and classifies violations against known_findings.jsonl"}],
    "checks": checks,
    "not_applicable": [{"property_id": p["id"], "reason": NA.get(p["id"], "check not built yet (build phase in progress)")} for p in props if p["id"] not in {c["property_id"] for c in checks}],
    "notes": "Exit codes of ./check: 0 held, 1 VIOLATION, 3 INCONCLUSIVE (build failure, unconfirmed watchdog, monitor floor not reached). Known findings: /verif/known_findings.jsonl.",
}
json.dump(m, open(os.path.join(V, "MANIFEST.json"), "w"), indent=1)
print("checks:", [c["property_id"] for c in checks])
