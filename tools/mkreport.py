#!/usr/bin/env python3
"""Regenerate the tables of DESIGN.md section 8 (between the GENERATED markers) from
known_findings.jsonl, seeded/*/meta.json and /repo's git log."""
import json, glob, os, subprocess, re
V = os.path.dirname(os.path.dirname(os.path.abspath(__file__)))
def sh(*a): return subprocess.run(a, capture_output=True, text=True).stdout
out = []
# fixes
log = sh("git", "-C", "/repo", "log", "--reverse", "--format=%h\t%s")
fixes = [l.split("\t") for l in log.splitlines() if "\tfix:" in l]
kf = [json.loads(l) for l in open(os.path.join(V, "known_findings.jsonl")) if l.strip()]
byc = {}
for e in kf:
    if e.get("status") == "fixed":
        byc.setdefault(e["commit"], []).append(e)
out.append("### 8.3 Defects repaired in /repo (`fix:` commits, oldest first)\n")
out.append("| commit | property | what failed (signature of the check that found it) |")
out.append("|---|---|---|")
for h, s in fixes:
    es = byc.get(h, [])
    props = ",".join(sorted({e["property"] for e in es})) or "?"
    sigs = "; ".join("`%s`" % e["signature"] for e in es) or ""
    out.append("| %s | %s | %s %s |" % (h, props, s[5:].strip(), ("— " + sigs) if sigs else ""))
orphan = [e for e in kf if e.get("status") == "fixed" and e["commit"] not in {h for h, _ in fixes}]
if orphan:
    out.append("\n(fixed entries whose commit hash predates a history rewrite: %s)" % ", ".join(e["commit"] for e in orphan))
out.append("\n### 8.4 Known findings (genuine defects recorded, not repaired)\n")
out.append("| property | signature | what fails |")
out.append("|---|---|---|")
for e in kf:
    if e.get("status") == "known":
        out.append("| %s | `%s` | %s |" % (e["property"], e["signature"], e["what"].replace("|", "/")))
out.append("\n### 8.5 Seeded changes and the checks that catch them\n")
out.append("| change | file / function | needs | caught by (quick tier; native stage unless stated) |")
out.append("|---|---|---|---|")
for f in sorted(glob.glob(os.path.join(V, "seeded", "*", "meta.json"))):
    m = json.load(open(f))
    crs = m.get("check_results") or {}
    r = crs.get("quick:native") or {}
    if not r.get("detected"):
        # missed by the native stage: any other run of the quick tier that caught it (a sanitizer stage)
        for k, v in crs.items():
            if k.startswith("quick:") and v.get("detected"):
                r = dict(v)
                r["signatures"] = list(v.get("signatures") or []) + ["(stages: %s)" % (k.split(":", 1)[1] or "all")]
                break
    sigs = r.get("signatures") or []
    det = r.get("detected")
    what = m.get("what_changed", "")
    what = what.split(":")[0][:110] if ":" in what[:140] else what[:110]
    need = (m.get("needs_to_manifest", "") or "")[:160].replace("|", "/").replace("\n", " ")
    if m.get("superseded_by_fix"):
        out.append("| %s | %s | %s | no longer a break: %s |" % (m.get("name"), what.replace("|", "/"), need, m["superseded_by_fix"].split(":")[0]))
        continue
    if m.get("caught_by_property"):
        need = need + " (caught by the check of " + m["caught_by_property"] + ")"
    out.append("| %s | %s | %s | %s |" % (m.get("name"), what.replace("|", "/"), need, ("**missed**" if det is False else ", ".join("`%s`" % s for s in sigs[:3]) + (" …" if len(sigs) > 3 else ""))))
txt = "\n".join(out) + "\n"
p = os.path.join(V, "DESIGN.md")
s = open(p).read()
a = s.index("<!-- BEGIN GENERATED -->") + len("<!-- BEGIN GENERATED -->\n")
b = s.index("<!-- END GENERATED -->")
open(p, "w").write(s[:a] + txt + s[b:])
print("report tables written:", len(fixes), "fixes")
