#!/usr/bin/env python3
"""Manage seeded breakages.
  seeded.py confirm <worktree> <name>   re-confirm an agent's change in its scratch worktree and store it under /verif/seeded/<name>/
  seeded.py run <name> [tier] [modes] [property]   apply /verif/seeded/<name>/patch.diff to /repo, run the property's check, undo, record the outcome
  seeded.py runall                      run every stored change against its property's quick check (native mode only)
"""
import sys, os, json, subprocess, shutil, time
V = os.environ.get("SEEDED_VERIF", "/verif")
REPO = os.environ.get("SEEDED_REPO", "/repo")

def sh(cmd, cwd=None, timeout=3600):
    p = subprocess.run(cmd, cwd=cwd, shell=isinstance(cmd, str), stdout=subprocess.PIPE, stderr=subprocess.STDOUT, text=True, timeout=timeout)
    return p.returncode, p.stdout

def confirm(wt, name):
    d = os.path.join(wt, "seeded", name)
    patch = os.path.join(d, "patch.diff")
    tgt = os.path.join(wt, "target")
    demo = os.path.join(d, "demo")
    res = {}
    rc, out = sh(["git", "status", "--porcelain", "--", "src"], cwd=wt)
    assert out.strip() == "", "worktree src not clean: " + out
    needs = ""
    try:
        needs = json.load(open(os.path.join(d, "meta.json"))).get("demo_needs", "")
    except Exception:
        pass
    # a change whose only effect is undefined behaviour: the demonstration runs under the interpreter
    runcmd = (f"MIRIFLAGS=-Zmiri-disable-isolation cargo +nightly miri run --offline --target-dir {tgt}_miri" if needs == "miri" else f"cargo run --offline --target-dir {tgt}")
    res["demo_runner"] = "miri" if needs == "miri" else "native"
    rc, out = sh(runcmd, cwd=demo)
    res["demo_without"] = rc
    rc, out = sh(["git", "apply", patch], cwd=wt)
    assert rc == 0, out
    try:
        rc, out = sh(f"cargo test --workspace --offline --target-dir {tgt}", cwd=wt)
        res["tests_rc"] = rc
        res["tests_171"] = "171 passed; 0 failed" in out
        rc, out = sh(runcmd, cwd=demo, timeout=1200)
        res["demo_with"] = rc
        res["demo_with_tail"] = out[-300:]
    finally:
        sh(["git", "checkout", "--", "src"], cwd=wt)
    ok = res["demo_without"] == 0 and res["tests_rc"] == 0 and res["tests_171"] and res["demo_with"] != 0
    res["confirmed"] = ok
    print(name, json.dumps(res)[:600])
    if ok:
        dst = os.path.join(V, "seeded", name)
        os.makedirs(dst, exist_ok=True)
        shutil.copy(patch, os.path.join(dst, "patch.diff"))
        shutil.copy(os.path.join(d, "demo.rs"), os.path.join(dst, "demo.rs"))
        if os.path.exists(os.path.join(demo, "Cargo.toml")):
            shutil.copy(os.path.join(demo, "Cargo.toml"), os.path.join(dst, "demo.Cargo.toml"))
        meta = {}
        try:
            meta = json.load(open(os.path.join(d, "meta.json")))
        except Exception:
            pass
        meta["confirmed_by_me"] = {"tests": "cargo test --workspace --offline: 171 passed", "demo_with_change_rc": res["demo_with"], "demo_without_change_rc": res["demo_without"], "when": time.strftime("%Y-%m-%d %H:%M")}
        json.dump(meta, open(os.path.join(dst, "meta.json"), "w"), indent=1)
    return ok

def run(name, tier="quick", modes="native", prop=None):
    dst = os.path.join(V, "seeded", name)
    meta = json.load(open(os.path.join(dst, "meta.json")))
    pid = prop or meta.get("caught_by_property") or meta.get("property") or name.split("_")[0]
    if prop:
        meta["caught_by_property"] = prop
    rc, out = sh(["git", "status", "--porcelain"], cwd=REPO)
    assert out.strip() == "", "/repo not clean: " + out
    rc, out = sh(["git", "apply", os.path.join(dst, "patch.diff")], cwd=REPO)
    assert rc == 0, out
    t0 = time.time()
    # the evidence file describes the unchanged tree: keep it out of the way of a run against a changed one
    ev = os.path.join(V, "evidence", pid + ".json")
    keep = open(ev).read() if os.path.exists(ev) else None
    try:
        cmd = [os.path.join(V, "check"), pid, "--tier", tier]
        if modes:
            cmd += ["--modes", modes]
        rc, out = sh(cmd, cwd=V, timeout=7200)
    finally:
        sh(["git", "checkout", "--", "."], cwd=REPO)
        if keep is not None:
            open(ev, "w").write(keep)
    sigs = [l.split("signature: ")[1] for l in out.splitlines() if "signature: " in l]
    detected = rc == 1 and "VIOLATION" in out
    rec = {"check": f"./check {pid} --tier {tier}" + (f" --modes {modes}" if modes else ""), "exit": rc, "detected": detected, "signatures": sigs[:8], "wall_s": round(time.time() - t0, 1)}
    meta.setdefault("check_results", {})[f"{tier}:{modes}"] = rec
    json.dump(meta, open(os.path.join(dst, "meta.json"), "w"), indent=1)
    print(name, json.dumps(rec)[:400])
    return detected

if __name__ == "__main__":
    a = sys.argv[1:]
    if a[0] == "confirm":
        confirm(a[1], a[2])
    elif a[0] == "run":
        run(a[1], *(a[2:]))
    elif a[0] == "runall":
        for n in sorted(os.listdir(os.path.join(V, "seeded"))):
            if os.path.exists(os.path.join(V, "seeded", n, "patch.diff")):
                run(n)
