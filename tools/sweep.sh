#!/bin/sh
# Background sweep inside a `vp run --with-repo` snapshot: tools/sweep.sh <tier> <seed> <ID>...
# The harness is pointed at the snapshot of /repo so that changes applied to /repo
# meanwhile (seeded patches under test) do not disturb the sweep. Results are not
# evidence; anything found is re-run in /verif against /repo itself.
tier=$1; seed=$2; shift 2
if [ -n "$VP_RUN_REPO" ]; then
  sed -i "s#path = \"/repo\"#path = \"$VP_RUN_REPO\"#" harness/Cargo.toml
fi
for id in "$@"; do
  t0=$(date +%s)
  nice -n 10 ./check "$id" --tier "$tier" --seed "$seed" > "sweep_${id}_${tier}_${seed}.log" 2>&1
  rc=$?
  echo "== $id tier=$tier seed=$seed exit=$rc wall=$(( $(date +%s) - t0 ))s"
  grep -E "^(VIOLATION|INCONCLUSIVE|KNOWN-FINDING|HELD|    signature)" "sweep_${id}_${tier}_${seed}.log" | cut -c1-300
done
